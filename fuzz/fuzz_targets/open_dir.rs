#![no_main]
//! C10: open never panics or hangs on any directory content (byte-level, coverage-guided).
//!
//! The input is decoded into: a base image (one of a few valid WAL images built at start-up from fixed
//! histories, or an empty directory) and a list of damage operations, some of which wrap fuzzer-chosen
//! bytes into CRC-valid frames so that the fuzzer reaches the entry parser and the replay logic.
use std::path::PathBuf;
use std::sync::OnceLock;

use arbitrary::Unstructured;
use libfuzzer_sys::fuzz_target;
use verif_harness::damage::{craft_entry_frames, craft_frame};
use verif_harness::iotrace::Image;
use verif_harness::ops::{COp, Pay, Policy, QName};
use verif_harness::util::{guarded, BLOCK};

struct Base {
    image: Image,
    /// end of the written extent in the newest file
    end: usize,
    newest: String,
}

fn scratch() -> &'static PathBuf {
    static DIR: OnceLock<PathBuf> = OnceLock::new();
    DIR.get_or_init(|| {
        let dir = verif_harness::util::scratch_root().join("fuzz-open-dir");
        let _ = std::fs::create_dir_all(&dir);
        dir
    })
}

fn bases() -> &'static Vec<Base> {
    static BASES: OnceLock<Vec<Base>> = OnceLock::new();
    BASES.get_or_init(|| {
        verif_harness::util::install_quiet_panic_hook();
        let mut bases = Vec::new();
        for variant in 0..3u64 {
            let dir = verif_harness::util::scratch_root().join(format!("fuzz-base-{variant}"));
            let _ = std::fs::remove_dir_all(&dir);
            std::fs::create_dir_all(&dir).unwrap();
            let mut exec = match verif_harness::exec::Exec::new(&dir, Policy::DEFAULT) {
                Ok(exec) => exec,
                Err(_) => panic!("cannot build base image"),
            };
            let q1 = QName::plain("q1");
            let q2 = QName::plain("q2");
            let mut ops = vec![COp::Create { q: q1.clone() }, COp::Create { q: q2.clone() }];
            for round in 0..(2 + variant * 3) {
                ops.push(COp::Append { q: q1.clone(), pos: None, batch: vec![Pay { len: 10 + (round * 9_000) as u32, seed: round, style: 0 }, Pay { len: 3, seed: 1, style: 0 }] });
                ops.push(COp::Append { q: q2.clone(), pos: None, batch: vec![Pay { len: (variant * 20_000) as u32 + 100, seed: round, style: 3 }] });
                if round % 2 == 1 {
                    ops.push(COp::Truncate { q: q1.clone(), pos: round });
                }
            }
            for op in ops {
                let _ = exec.step_concrete(op);
            }
            let _ = exec.driver.close();
            let image = Image::from_dir(&dir).unwrap();
            let newest = image.files.keys().last().cloned().unwrap();
            let end = exec
                .driver
                .tracer
                .frames
                .iter()
                .filter(|frame| frame.name == newest)
                .map(|frame| frame.off as usize + 7 + frame.payload_len)
                .max()
                .unwrap_or(0);
            let _ = std::fs::remove_dir_all(&dir);
            bases.push(Base { image, end, newest });
        }
        bases
    })
}

fuzz_target!(|data: &[u8]| {
    let bases = bases();
    let mut input = Unstructured::new(data);
    let choice: u8 = input.arbitrary().unwrap_or(0);
    let (mut image, mut cursor, newest) = if choice % 4 == 3 {
        let mut image = Image::default();
        image.files.insert("wal-00000000000000000000".to_string(), vec![0u8; verif_harness::util::file_bytes()]);
        (image, 0usize, "wal-00000000000000000000".to_string())
    } else {
        let base = &bases[(choice % 4) as usize % bases.len()];
        (base.image.clone(), base.end, base.newest.clone())
    };
    let ops = input.int_in_range(0..=8u8).unwrap_or(0);
    for _ in 0..ops {
        let kind: u8 = input.arbitrary().unwrap_or(0);
        let names: Vec<String> = image.files.keys().cloned().collect();
        if names.is_empty() {
            break;
        }
        let file = names[input.int_in_range(0..=(names.len() - 1)).unwrap_or(0)].clone();
        match kind % 8 {
            0 | 1 => {
                // an entry made of fuzzer bytes, framed with correct CRCs, appended right after the written extent
                let len = input.int_in_range(0..=300usize).unwrap_or(0).min(input.len());
                let entry = input.bytes(len).unwrap_or(&[]).to_vec();
                let frames = craft_entry_frames(&entry, cursor % BLOCK);
                if let Some(content) = image.files.get_mut(&newest) {
                    if cursor + frames.len() <= content.len() {
                        content[cursor..cursor + frames.len()].copy_from_slice(&frames);
                        cursor += frames.len();
                    }
                }
            }
            2 => {
                // a single frame of fuzzer-chosen type with a correct CRC
                let frame_type: u8 = input.arbitrary().unwrap_or(1);
                let len = input.int_in_range(0..=64usize).unwrap_or(0).min(input.len());
                let payload = input.bytes(len).unwrap_or(&[]).to_vec();
                let frame = craft_frame(frame_type % 6, &payload);
                if let Some(content) = image.files.get_mut(&newest) {
                    if cursor + frame.len() <= content.len() && BLOCK - cursor % BLOCK >= frame.len() {
                        content[cursor..cursor + frame.len()].copy_from_slice(&frame);
                        cursor += frame.len();
                    }
                }
            }
            3 => {
                // raw overwrite
                let off: u32 = input.arbitrary().unwrap_or(0);
                let len = input.int_in_range(0..=64usize).unwrap_or(0).min(input.len());
                let bytes = input.bytes(len).unwrap_or(&[]).to_vec();
                if let Some(content) = image.files.get_mut(&file) {
                    if !content.is_empty() {
                        let start = off as usize % content.len();
                        let end = (start + bytes.len()).min(content.len());
                        content[start..end].copy_from_slice(&bytes[..end - start]);
                    }
                }
            }
            4 => {
                let len: u32 = input.arbitrary().unwrap_or(0);
                if let Some(content) = image.files.get_mut(&file) {
                    content.resize(len as usize % (verif_harness::util::file_bytes() + BLOCK), 0);
                }
            }
            5 => {
                image.files.remove(&file);
            }
            6 => {
                let delta: u8 = input.arbitrary().unwrap_or(0);
                let number = verif_harness::util::wal_number(&file).unwrap_or(0).saturating_add(delta as u64 % 4);
                let content = image.files.get(&file).cloned().unwrap_or_default();
                image.files.insert(verif_harness::util::wal_name(number), content);
            }
            _ => {
                let other = names[input.int_in_range(0..=(names.len() - 1)).unwrap_or(0)].clone();
                let block_a = input.int_in_range(0..=3usize).unwrap_or(0);
                let block_b = input.int_in_range(0..=3usize).unwrap_or(0);
                let range = |block: usize| block * BLOCK..(block + 1) * BLOCK;
                let a = image.files.get(&file).and_then(|content| content.get(range(block_a)).map(|slice| slice.to_vec()));
                let b = image.files.get(&other).and_then(|content| content.get(range(block_b)).map(|slice| slice.to_vec()));
                if let (Some(a), Some(b)) = (a, b) {
                    image.files.get_mut(&file).unwrap()[range(block_a)].copy_from_slice(&b);
                    image.files.get_mut(&other).unwrap()[range(block_b)].copy_from_slice(&a);
                }
            }
        }
    }
    let dir = scratch();
    image.materialize(dir).expect("materialize");
    let total_blocks: u64 = image.files.values().map(|content| (content.len() / BLOCK) as u64 + 1).sum();
    mrecordlog::verif_hooks::reset_steps();
    let result = guarded(|| mrecordlog::MultiRecordLog::open(dir));
    let steps = mrecordlog::verif_hooks::steps();
    match result {
        Err(panic) => panic!("C10 violated: open panicked: {panic} at {:?}", verif_harness::util::last_panic_location()),
        Ok(Err(_)) => {}
        Ok(Ok(log)) => {
            let accessors = guarded(|| {
                let names: Vec<String> = log.list_queues().map(|name| name.to_string()).collect();
                for name in &names {
                    let _ = log.last_position(name);
                    let _ = log.last_record(name).map(|record| record.map(|record| record.payload.len()));
                    if let Ok(iter) = log.range(name, ..) {
                        for record in iter {
                            let _ = record.payload.len();
                        }
                    }
                    if let Ok(iter) = log.range(name, 1..=u64::MAX) {
                        let _ = iter.count();
                    }
                }
                let _ = log.summary();
                let _ = log.resource_usage();
            });
            if let Err(panic) = accessors {
                panic!("C10 violated: a read accessor panicked: {panic} at {:?}", verif_harness::util::last_panic_location());
            }
            if guarded(move || drop(log)).is_err() {
                panic!("C10 violated: dropping the log panicked");
            }
        }
    }
    if steps > 8 * (total_blocks + image.files.len() as u64) + 64 {
        panic!("C10 violated: recovery loaded {steps} blocks for a directory of {total_blocks} blocks");
    }
});
