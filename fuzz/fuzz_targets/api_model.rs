#![no_main]
//! C05: every call conforms to the sequential queue-map specification (coverage-guided op sequences).
//!
//! The input is decoded into a sequence of API calls (queue index, position selector, payload lengths, truncation
//! selector, restart); the calls run in lock-step on the real log and on the reference model, and after every
//! call the outcome and every read accessor are compared (same oracle as `./check C05`).
use std::path::PathBuf;
use std::sync::OnceLock;

use arbitrary::Unstructured;
use libfuzzer_sys::fuzz_target;
use verif_harness::exec::Exec;
use verif_harness::model::Model;
use verif_harness::ops::{COp, Pay, Policy, QName};
use verif_harness::props::c05::{probe, ProbeStats};

fn scratch() -> &'static PathBuf {
    static DIR: OnceLock<PathBuf> = OnceLock::new();
    DIR.get_or_init(|| {
        verif_harness::util::install_quiet_panic_hook();
        let dir = verif_harness::util::scratch_root().join("fuzz-api-model");
        let _ = std::fs::create_dir_all(&dir);
        dir
    })
}

const NAMES: [&str; 4] = ["q1", "q2", "alpha", "日本語"];

fuzz_target!(|data: &[u8]| {
    let dir = scratch();
    verif_harness::util::clear_dir(dir);
    let mut input = Unstructured::new(data);
    let policy = if input.arbitrary::<bool>().unwrap_or(false) { Policy::DoNothing } else { Policy::DEFAULT };
    let Ok(mut exec) = Exec::new(dir, policy) else { return };
    let mut stats = ProbeStats::default();
    let mut steps = 0;
    while !input.is_empty() && steps < 40 {
        steps += 1;
        let kind: u8 = input.arbitrary().unwrap_or(0);
        let q = QName::plain(NAMES[(input.arbitrary::<u8>().unwrap_or(0) % 4) as usize]);
        let next = exec.model.queues.get(&q.text()).map(|queue| queue.next).unwrap_or(0);
        let first = exec.model.queues.get(&q.text()).map(|queue| queue.first_position()).unwrap_or(0);
        let cop = match kind % 16 {
            0 | 1 => COp::Create { q },
            2 => COp::Delete { q },
            3..=9 => {
                let pos = match input.arbitrary::<u8>().unwrap_or(0) % 8 {
                    0..=3 => None,
                    4 => Some(next),
                    5 => Some(next.saturating_sub(1)),
                    6 => Some(next.saturating_sub(1 + input.arbitrary::<u8>().unwrap_or(0) as u64)),
                    _ => Some(next + input.arbitrary::<u16>().unwrap_or(0) as u64),
                };
                let count = input.int_in_range(0..=4u8).unwrap_or(1);
                let mut batch = Vec::new();
                for _ in 0..count {
                    let class: u8 = input.arbitrary().unwrap_or(0);
                    let raw: u16 = input.arbitrary().unwrap_or(0);
                    let len = match class % 5 {
                        0 => 0,
                        1 => raw as u32 % 32,
                        2 => raw as u32 % 5_000,
                        3 => raw as u32,
                        _ => raw as u32 * 3,
                    };
                    batch.push(Pay { len, seed: raw as u64, style: class % 4 });
                }
                COp::Append { q, pos, batch }
            }
            10..=13 => {
                let pos = match input.arbitrary::<u8>().unwrap_or(0) % 6 {
                    0 => first.saturating_sub(1),
                    1 | 2 => first + (input.arbitrary::<u16>().unwrap_or(0) as u64) % (next.saturating_sub(first) + 1),
                    3 => next.saturating_sub(1),
                    4 => next + input.arbitrary::<u8>().unwrap_or(0) as u64,
                    _ => input.arbitrary::<u32>().unwrap_or(0) as u64,
                };
                COp::Truncate { q, pos }
            }
            14 => COp::Persist { fsync: false },
            _ => COp::Restart { policy: None },
        };
        let is_restart = matches!(cop, COp::Restart { .. });
        let Ok(step) = exec.step_concrete(cop) else { return };
        if is_restart {
            // what a restart preserves is C01's concern: re-seed the model with what the re-opened log shows
            match exec.driver.observe() {
                Ok(observed) => exec.model = Model::from_state(&observed),
                Err(_) => return,
            }
            continue;
        }
        if step.real.outcome != step.expected {
            panic!("C05 violated: op #{} {}: model says {:?}, implementation returned {:?}", step.idx, step.cop.short(), step.expected, step.real.outcome);
        }
        let word: u64 = input.arbitrary().unwrap_or(step.idx as u64);
        if let Err(msg) = probe(exec.driver.log.as_ref().unwrap(), &exec.model, word, &mut stats) {
            panic!("C05 violated: after op #{} {}: {msg}", step.idx, step.cop.short());
        }
    }
    let _ = exec.driver.close();
});
