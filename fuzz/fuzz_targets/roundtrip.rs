#![no_main]
//! C07: entries of any size round-trip at any block alignment (record layer, in memory).
use arbitrary::Unstructured;
use libfuzzer_sys::fuzz_target;
use verif_harness::props::c07::roundtrip;
use verif_harness::util::{fill, BLOCK, FRAME_HEADER};

fuzz_target!(|data: &[u8]| {
    let mut input = Unstructured::new(data);
    let start_raw: u16 = input.arbitrary().unwrap_or(0);
    let mut start = start_raw as usize % (BLOCK + 1);
    if start > 0 && start < FRAME_HEADER {
        start = FRAME_HEADER;
    }
    let count = 1 + input.int_in_range(0..=5u8).unwrap_or(0) as usize;
    let mut entries: Vec<Vec<u8>> = Vec::with_capacity(count);
    for _ in 0..count {
        let class: u8 = input.arbitrary().unwrap_or(0);
        let raw: u32 = input.arbitrary().unwrap_or(0);
        let len = match class % 6 {
            0 => 0,
            1 => raw as usize % 64,
            2 => raw as usize % 40_000,
            3 => raw as usize % 330_000,
            4 => (BLOCK - FRAME_HEADER) * (1 + raw as usize % 9) + (raw as usize >> 8) % 41 - 20,
            _ => {
                // whatever is left in the input, verbatim
                let take = input.len().min(raw as usize % 5_000);
                let bytes = input.bytes(take).unwrap_or(&[]).to_vec();
                entries.push(bytes);
                continue;
            }
        };
        let style: u8 = input.arbitrary().unwrap_or(0);
        entries.push(fill(raw as u64, len, style % 4));
    }
    if let Err(msg) = roundtrip(start, &entries) {
        if !msg.starts_with("engine:") {
            let lens: Vec<usize> = entries.iter().map(|entry| entry.len()).collect();
            panic!("C07 violated: start offset {start}, entry lengths {lens:?}: {msg}");
        }
    }
});
