//! Worker pool, proptest driving, shrinking, replay, evidence.

use std::cell::RefCell;
use std::path::{Path, PathBuf};
use std::process::{Command, Stdio};
use std::time::{Duration, Instant};

use proptest::strategy::BoxedStrategy;
use proptest::test_runner::{Config, RngSeed, TestCaseError, TestError, TestRunner};
use serde_json::{json, Value};

use crate::case::{Case, CaseError, Env, Failure, ReplayFile, Stats, Tier};
use crate::findings::Findings;
use crate::util::{hash64, mix};

pub trait Property {
    fn id(&self) -> &'static str;
    fn level(&self) -> &'static str {
        "exploration"
    }
    /// How cases are generated and what makes one non-trivial / distinct.
    fn rule(&self) -> String;
    fn assumptions(&self) -> Vec<String>;
    /// Number of generated cases for the whole run (split over the workers).
    fn cases(&self, tier: Tier) -> u32;
    fn max_shrink_iters(&self) -> u32 {
        1500
    }
    fn strategy(&self, tier: Tier) -> BoxedStrategy<Case>;
    fn run(&self, case: &Case, env: &mut Env) -> Result<(), CaseError>;
    /// Deterministic enumerated work (grids), sharded over the workers.
    fn fixed_work(&self, _env: &mut Env, _shard: u32, _shards: u32) -> Result<(), CaseError> {
        Ok(())
    }
    /// For these properties a hang or abnormal death of the worker *is* the violation.
    fn hang_is_violation(&self) -> bool {
        false
    }
    /// Additional keys for the evidence "coverage" object.
    fn extra_coverage(&self, _stats: &Stats) -> Value {
        json!({})
    }
}

pub fn verif_root() -> PathBuf {
    if let Some(root) = std::env::var_os("VERIF_ROOT") {
        return PathBuf::from(root);
    }
    PathBuf::from("/verif")
}

pub fn seed_from_env() -> u64 {
    std::env::var("VERIF_SEED")
        .ok()
        .and_then(|text| text.trim().parse::<i64>().ok().map(|value| value as u64))
        .or_else(|| {
            std::env::var("VERIF_SEED")
                .ok()
                .and_then(|text| text.trim().parse::<u64>().ok())
        })
        .unwrap_or(20260925)
}

fn num_workers() -> u32 {
    if let Ok(text) = std::env::var("VERIF_WORKERS") {
        if let Ok(count) = text.parse::<u32>() {
            return count.max(1);
        }
    }
    std::thread::available_parallelism()
        .map(|count| count.get() as u32)
        .unwrap_or(4)
        .clamp(1, 16)
}

// ---------------------------------------------------------------------------------------------
// Worker

pub struct WorkerOutcome {
    pub stats: Stats,
    pub violation: Option<Failure>,
    pub engine_error: Option<String>,
}

fn handle_known(
    property: &dyn Property,
    findings: &Findings,
    env: &mut Env,
    result: Result<(), CaseError>,
) -> Result<(), CaseError> {
    match result {
        Err(CaseError::Violation(failure)) => {
            if !env.strict && findings.is_known(property.id(), &failure.signature).is_some() {
                if env.counting {
                    *env
                        .stats
                        .known_hits
                        .entry(failure.signature.clone())
                        .or_insert(0) += 1;
                }
                Ok(())
            } else {
                Err(CaseError::Violation(failure))
            }
        }
        Err(CaseError::Skip(reason)) => {
            if env.counting {
                env.stats.class(&format!("skipped:{reason}"));
            }
            Ok(())
        }
        other => other,
    }
}

fn attach_words(failure: &mut Failure, case: &Case) {
    if !failure.extra.is_object() {
        failure.extra = json!({});
    }
    if failure.extra.get("words").is_none() {
        failure.extra["words"] = json!(case.words);
    }
}

/// Runs `cases` generated cases (plus this shard's fixed work) in-process.
pub fn run_worker(
    property: &dyn Property,
    tier: Tier,
    seed: u64,
    shard: u32,
    shards: u32,
    findings: &Findings,
    track_path: Option<PathBuf>,
) -> WorkerOutcome {
    let total_cases = std::env::var("VERIF_CASES")
        .ok()
        .and_then(|text| text.parse::<u32>().ok())
        .unwrap_or_else(|| property.cases(tier));
    let my_cases = total_cases / shards + u32::from(shard < total_cases % shards);
    let env = RefCell::new(Env::new(tier));
    env.borrow_mut().track_path = track_path;
    let engine_error: RefCell<Option<String>> = RefCell::new(None);
    let last_failure: RefCell<Option<Failure>> = RefCell::new(None);

    // fixed work first
    {
        let mut env_ref = env.borrow_mut();
        let result = property.fixed_work(&mut env_ref, shard, shards);
        let result = handle_known(property, findings, &mut env_ref, result);
        match result {
            Ok(()) => {}
            Err(CaseError::Violation(failure)) => {
                drop(env_ref);
                return WorkerOutcome {
                    stats: std::mem::take(&mut env.borrow_mut().stats),
                    violation: Some(*failure),
                    engine_error: None,
                };
            }
            Err(CaseError::Engine(msg)) => {
                drop(env_ref);
                return WorkerOutcome {
                    stats: std::mem::take(&mut env.borrow_mut().stats),
                    violation: None,
                    engine_error: Some(msg),
                };
            }
            Err(CaseError::Skip(_)) => {}
        }
    }

    let mut violation = None;
    if my_cases > 0 {
        let config = Config {
            cases: my_cases,
            failure_persistence: None,
            rng_seed: RngSeed::Fixed(mix(mix(seed, hash64(property.id())), shard as u64)),
            max_shrink_iters: property.max_shrink_iters(),
            max_shrink_time: 120_000,
            ..Config::default()
        };
        let mut runner = TestRunner::new(config);
        let strategy = property.strategy(tier);
        let result = runner.run(&strategy, |case| {
            if engine_error.borrow().is_some() {
                return Ok(());
            }
            let mut env_ref = env.borrow_mut();
            if env_ref.counting {
                env_ref.stats.cases += 1;
            }
            let result = crate::util::guarded(|| property.run(&case, &mut env_ref));
            let result = match result {
                Ok(result) => result,
                Err(panic) => Err(CaseError::Engine(format!(
                    "harness panic: {panic} at {:?}",
                    crate::util::last_panic_location()
                ))),
            };
            let result = handle_known(property, findings, &mut env_ref, result);
            match result {
                Ok(()) => Ok(()),
                Err(CaseError::Violation(mut failure)) => {
                    // from here on proptest shrinks: stop counting
                    env_ref.counting = false;
                    let msg = failure.msg.clone();
                    attach_words(&mut failure, &case);
                    *last_failure.borrow_mut() = Some(*failure);
                    Err(TestCaseError::fail(msg))
                }
                Err(CaseError::Engine(msg)) => {
                    if env_ref.counting {
                        *engine_error.borrow_mut() = Some(msg);
                        Ok(())
                    } else {
                        // engine trouble while shrinking: treat the candidate as passing
                        Ok(())
                    }
                }
                Err(CaseError::Skip(_)) => Ok(()),
            }
        });
        match result {
            Ok(()) => {}
            Err(TestError::Fail(_, minimal)) => {
                // re-run the minimal case to obtain its failure deterministically
                let mut env_ref = env.borrow_mut();
                env_ref.counting = false;
                let rerun = crate::util::guarded(|| property.run(&minimal, &mut env_ref));
                let rerun = match rerun {
                    Ok(result) => handle_known(property, findings, &mut env_ref, result),
                    Err(panic) => Err(CaseError::Engine(panic)),
                };
                violation = match rerun {
                    Err(CaseError::Violation(mut failure)) => {
                        attach_words(&mut failure, &minimal);
                        Some(*failure)
                    }
                    _ => last_failure.borrow_mut().take(),
                };
            }
            Err(TestError::Abort(reason)) => {
                *engine_error.borrow_mut() = Some(format!("proptest aborted: {reason}"));
            }
        }
    }
    let stats = std::mem::take(&mut env.borrow_mut().stats);
    let engine_error = engine_error.borrow_mut().take();
    WorkerOutcome {
        stats,
        violation,
        engine_error,
    }
}

pub fn worker_main(
    property: &dyn Property,
    tier: Tier,
    seed: u64,
    shard: u32,
    shards: u32,
    report_path: &Path,
) -> i32 {
    let findings = Findings::load(&verif_root().join("KNOWN_FINDINGS.txt"));
    // a worker must not outlive its parent
    unsafe {
        libc::prctl(libc::PR_SET_PDEATHSIG, libc::SIGKILL);
    }
    if property.hang_is_violation() {
        // per-case watchdog: a case that runs for more than 60 s kills this worker; the parent then
        // re-runs the noted case alone to confirm
        crate::case::CASE_STARTED.store(0, std::sync::atomic::Ordering::Relaxed);
        std::thread::spawn(|| loop {
            std::thread::sleep(Duration::from_secs(1));
            let started = crate::case::CASE_STARTED.load(std::sync::atomic::Ordering::Relaxed);
            if started != 0 && crate::case::now_secs().saturating_sub(started) > 60 {
                eprintln!("worker watchdog: a case exceeded 60 s");
                std::process::abort();
            }
        });
        // bound the address space: unbounded allocation must show up as a failure, not eat the machine
        unsafe {
            let limit = libc::rlimit { rlim_cur: 12 << 30, rlim_max: 12 << 30 };
            libc::setrlimit(libc::RLIMIT_AS, &limit);
        }
    }
    let track_path = if property.hang_is_violation() {
        Some(report_path.with_extension("current.json"))
    } else {
        None
    };
    let outcome = run_worker(property, tier, seed, shard, shards, &findings, track_path);
    let report = json!({
        "stats": outcome.stats.to_json(),
        "violation": outcome.violation.as_ref().map(|failure| {
            serde_json::to_value(failure.to_replay(property.id())).unwrap()
        }),
        "engine_error": outcome.engine_error,
    });
    // the hashes of the distinct non-trivial cases travel as raw little-endian u64s (there can be millions)
    let mut raw: Vec<u8> = Vec::with_capacity(outcome.stats.nontrivial.len() * 8);
    for hash in &outcome.stats.nontrivial {
        raw.extend_from_slice(&hash.to_le_bytes());
    }
    if let Err(err) = std::fs::write(report_path.with_extension("hashes"), raw) {
        eprintln!("worker {shard}: cannot write hashes: {err}");
        return 2;
    }
    if let Err(err) = std::fs::write(report_path, serde_json::to_vec(&report).unwrap()) {
        eprintln!("worker {shard}: cannot write report: {err}");
        return 2;
    }
    0
}

// ---------------------------------------------------------------------------------------------
// Replay

pub fn replay_file(property: &dyn Property, path: &Path, strict: bool) -> Result<(), CaseError> {
    let content = std::fs::read(path)
        .map_err(|err| CaseError::Engine(format!("cannot read {}: {err}", path.display())))?;
    let replay: ReplayFile = serde_json::from_slice(&content)
        .map_err(|err| CaseError::Engine(format!("cannot parse {}: {err}", path.display())))?;
    let case = replay.to_case();
    let mut env = Env::new(Tier::Quick);
    env.strict = strict;
    env.counting = false;
    let result = crate::util::guarded(|| property.run(&case, &mut env));
    match result {
        Ok(result) => result,
        Err(panic) => Err(CaseError::Engine(format!(
            "harness panic during replay: {panic} at {:?}",
            crate::util::last_panic_location()
        ))),
    }
}

// ---------------------------------------------------------------------------------------------
// Parent

pub struct RunSummary {
    pub exit_code: i32,
}

enum Confirm {
    Passed,
    Failed(String),
}

fn confirm_alone(exe: &Path, id: &str, path: &Path) -> Confirm {
    let child = Command::new(exe)
        .arg(id)
        .arg("--replay")
        .arg(path)
        .stdin(Stdio::null())
        .stdout(Stdio::null())
        .stderr(Stdio::null())
        .spawn();
    let Ok(mut child) = child else {
        return Confirm::Passed;
    };
    let started = Instant::now();
    loop {
        match child.try_wait() {
            Ok(Some(status)) => {
                return match status.code() {
                    Some(0) => Confirm::Passed,
                    Some(1) => Confirm::Failed("violation reproduced".to_string()),
                    Some(2) => Confirm::Passed,
                    _ => Confirm::Failed(format!("process died with {status}")),
                };
            }
            Ok(None) => {
                if started.elapsed() > Duration::from_secs(90) {
                    let _ = child.kill();
                    let _ = child.wait();
                    return Confirm::Failed("still running after 90 s (hang)".to_string());
                }
                std::thread::sleep(Duration::from_millis(50));
            }
            Err(_) => return Confirm::Passed,
        }
    }
}

fn write_replay(property_id: &str, replay: &Value) -> PathBuf {
    let dir = verif_root().join("out").join("replays");
    let _ = std::fs::create_dir_all(&dir);
    let text = serde_json::to_string_pretty(replay).unwrap();
    let path = dir.join(format!("{property_id}-{:016x}.json", hash64(&text)));
    let _ = std::fs::write(&path, text);
    path
}

pub fn parent_main(property: &dyn Property, tier: Tier, seed: u64) -> i32 {
    let started = Instant::now();
    let id = property.id();
    let findings = Findings::load(&verif_root().join("KNOWN_FINDINGS.txt"));
    let mut violations: Vec<(String, PathBuf)> = Vec::new();
    let mut known_printed: Vec<String> = Vec::new();
    let mut engine_errors: Vec<String> = Vec::new();

    // 1. committed regressions (strict = false: known findings stay known)
    let regressions_dir = verif_root().join("regressions").join(id);
    let mut regression_count = 0u64;
    if let Ok(read_dir) = std::fs::read_dir(&regressions_dir) {
        let mut paths: Vec<PathBuf> = read_dir
            .flatten()
            .map(|entry| entry.path())
            .filter(|path| path.extension().map(|ext| ext == "json").unwrap_or(false))
            .collect();
        paths.sort();
        for path in paths {
            regression_count += 1;
            match replay_file(property, &path, true) {
                Ok(()) => {}
                Err(CaseError::Violation(failure)) => {
                    if let Some(known) = findings.is_known(id, &failure.signature) {
                        let line = format!(
                            "KNOWN-FINDING: property={id} signature={} {}",
                            known.signature, known.text
                        );
                        if !known_printed.contains(&line) {
                            known_printed.push(line);
                        }
                    } else {
                        println!("regression {} fails: {}", path.display(), failure.msg);
                        violations.push((failure.msg.clone(), path.clone()));
                    }
                }
                Err(CaseError::Engine(msg)) => engine_errors.push(format!(
                    "regression {}: {msg}",
                    path.display()
                )),
                Err(CaseError::Skip(reason)) => {
                    println!("regression {}: skipped ({reason})", path.display());
                }
            }
        }
    }

    // 2. workers
    let shards = num_workers();
    let exe = std::env::current_exe().expect("current_exe");
    let report_dir = crate::util::scratch_root().join("reports");
    let _ = std::fs::create_dir_all(&report_dir);
    let mut children = Vec::new();
    for shard in 0..shards {
        let report_path = report_dir.join(format!("report-{shard}.json"));
        let child = Command::new(&exe)
            .arg("--worker")
            .arg(id)
            .arg("--tier")
            .arg(tier.name())
            .arg("--seed")
            .arg(seed.to_string())
            .arg("--shard")
            .arg(shard.to_string())
            .arg("--shards")
            .arg(shards.to_string())
            .arg("--report")
            .arg(&report_path)
            .stdin(Stdio::null())
            .stderr(if std::env::var_os("VERIF_DEBUG").is_some() {
                Stdio::inherit()
            } else {
                Stdio::null()
            })
            .spawn();
        match child {
            Ok(child) => children.push((shard, child, report_path)),
            Err(err) => engine_errors.push(format!("cannot spawn worker {shard}: {err}")),
        }
    }
    let budget = Duration::from_secs(match tier {
        Tier::Quick => 1500,
        Tier::Thorough => 4 * 3600,
    });
    let mut stats = Stats::default();
    let mut all_hashes: Vec<u64> = Vec::new();
    let mut confirmed_hangs = 0u32;
    for (shard, mut child, report_path) in children {
        let status = loop {
            match child.try_wait() {
                Ok(Some(status)) => break Some(status),
                Ok(None) => {
                    if started.elapsed() > budget {
                        let _ = child.kill();
                        let _ = child.wait();
                        break None;
                    }
                    std::thread::sleep(Duration::from_millis(20));
                }
                Err(_) => break None,
            }
        };
        let current_path = report_path.with_extension("current.json");
        let abnormal = match status {
            None => Some("exceeded the run's wall-clock guard".to_string()),
            Some(status) if !status.success() => Some(format!("died with {status}")),
            Some(_) => None,
        };
        if let Some(why) = abnormal {
            if property.hang_is_violation() && current_path.exists() {
                let replay: Value = std::fs::read(&current_path)
                    .ok()
                    .and_then(|bytes| serde_json::from_slice(&bytes).ok())
                    .unwrap_or(json!({}));
                let path = write_replay(id, &replay);
                // confirm: re-run that case alone, with a deadline (only the first such worker is confirmed: the
                // others died of the same cause more often than not, and each confirmation may take minutes)
                if confirmed_hangs >= 1 {
                    engine_errors.push(format!("worker {shard} {why} (noted case: {}; not re-run, an earlier worker's case was)", path.display()));
                    continue;
                }
                confirmed_hangs += 1;
                match confirm_alone(&exe, id, &path) {
                    Confirm::Passed => engine_errors.push(format!(
                        "worker {shard} {why}, but the noted case passes when re-run alone ({})",
                        path.display()
                    )),
                    Confirm::Failed(how) => violations.push((
                        format!("worker {shard} {why}; re-running the noted case alone: {how}"),
                        path,
                    )),
                }
            } else {
                engine_errors.push(format!("worker {shard} {why}"));
            }
            continue;
        }
        let report: Option<Value> = std::fs::read(&report_path)
            .ok()
            .and_then(|bytes| serde_json::from_slice(&bytes).ok());
        let Some(report) = report else {
            engine_errors.push(format!("worker {shard} left no report"));
            continue;
        };
        stats.merge(Stats::from_json(&report["stats"]));
        if let Ok(raw) = std::fs::read(report_path.with_extension("hashes")) {
            for chunk in raw.chunks_exact(8) {
                all_hashes.push(u64::from_le_bytes(chunk.try_into().unwrap()));
            }
        }
        if let Some(msg) = report["engine_error"].as_str() {
            engine_errors.push(format!("worker {shard}: {msg}"));
        }
        if !report["violation"].is_null() {
            let path = write_replay(id, &report["violation"]);
            let msg = report["violation"]["note"].as_str().unwrap_or("").to_string();
            violations.push((msg, path));
        }
    }
    let _ = std::fs::remove_dir_all(crate::util::scratch_root());
    all_hashes.sort_unstable();
    all_hashes.dedup();
    let distinct_nontrivial = all_hashes.len();
    drop(all_hashes);

    for (signature, count) in &stats.known_hits {
        if let Some(known) = findings.is_known(id, signature) {
            let line = format!(
                "KNOWN-FINDING: property={id} signature={} {}",
                known.signature, known.text
            );
            if !known_printed.contains(&line) {
                known_printed.push(line);
            }
            let _ = count;
        }
    }

    // 3. evidence
    let wall = started.elapsed().as_secs_f64();
    let evaluations = stats.evaluations.max(stats.cases);
    let mut coverage = json!({
        "evaluations": evaluations,
        "generated_cases": stats.cases,
        "distinct_nontrivial": distinct_nontrivial,
        "rule": property.rule(),
        "samples": stats.samples,
        "classes": stats.classes,
        "regressions_replayed": regression_count,
        "excluded_known": stats.known_hits,
        "workers": shards,
        "notes": stats.notes,
    });
    if let (Some(target), Some(extra)) = (
        coverage.as_object_mut(),
        property.extra_coverage(&stats).as_object(),
    ) {
        for (key, value) in extra {
            target.insert(key.clone(), value.clone());
        }
    }
    let evidence = json!({
        "property_id": id,
        "tier": tier.name(),
        "seed": seed as i64,
        "level": property.level(),
        "coverage": coverage,
        "assumptions": property.assumptions(),
        "wall_s": wall,
        "violations": violations.len(),
        "engine_errors": engine_errors,
    });
    let evidence_dir = verif_root().join("evidence");
    let _ = std::fs::create_dir_all(&evidence_dir);
    let evidence_path = evidence_dir.join(format!("{id}.json"));
    if let Err(err) = std::fs::write(
        &evidence_path,
        serde_json::to_string_pretty(&evidence).unwrap(),
    ) {
        eprintln!("cannot write evidence: {err}");
        return 2;
    }

    // 4. report
    println!(
        "{id} tier={} seed={seed} cases={} evaluations={} distinct_nontrivial={} wall={:.1}s",
        tier.name(),
        stats.cases,
        evaluations,
        distinct_nontrivial,
        wall
    );
    let class_line: Vec<String> = stats
        .classes
        .iter()
        .map(|(name, count)| format!("{name}={count}"))
        .collect();
    println!("classes: {}", class_line.join(" "));
    for line in &known_printed {
        println!("{line}");
    }
    for msg in &engine_errors {
        println!("ENGINE-ERROR: {msg}");
    }
    if !violations.is_empty() {
        // smallest replay first; at most three are listed
        violations.sort_by_key(|(_, path)| std::fs::metadata(path).map(|meta| meta.len()).unwrap_or(u64::MAX));
        println!("{} worker(s)/regression(s) reported a violation; smallest first", violations.len());
        for (msg, path) in violations.iter().take(3) {
            println!("violation detail: {msg}");
            println!("VIOLATION property={id} replay={}", path.display());
        }
        return 1;
    }
    if !engine_errors.is_empty() {
        return 2;
    }
    if distinct_nontrivial < 2 {
        println!("ENGINE-ERROR: fewer than 2 distinct non-trivial cases were explored");
        return 2;
    }
    0
}
