//! Runs a history on the real log and the reference model in lock-step.

use std::path::Path;
use std::rc::Rc;

use serde_json::{json, Value};

use crate::case::{CaseError, Failure};
use crate::driver::{Driver, Real};
use crate::iotrace::{Effect, Image};
use crate::model::{diff_states, Bytes, Model, Outcome, State};
use crate::ops::{resolve, COp, Policy, ResolveCtx, SOp};
use crate::util::file_bytes;

pub struct Step {
    pub idx: usize,
    pub cop: COp,
    pub expected: Outcome,
    pub real: Real,
    /// Effects produced by this op: `effects[range]` of the tracer.
    pub effects: std::ops::Range<usize>,
    /// Bytes passed to `BlockWrite::write` during the op (frames + padding).
    pub written: u64,
    /// WAL file that was current when the call began.
    pub file_at_begin: String,
}

pub struct Exec {
    pub driver: Driver,
    pub model: Model,
    pub policy0: Policy,
    pub cops: Vec<COp>,
    /// Model state after each op (index i = state after op i), when enabled.
    pub snapshots: Vec<State>,
    pub keep_snapshots: bool,
    /// Everything ever appended: (queue, position, payload) — for C08.
    pub appended: Vec<(String, u64, Bytes)>,
    pub keep_appended: bool,
    /// Observed state of the REAL log after each op (model-free snapshots), when enabled.
    pub live: Vec<State>,
    pub keep_live: bool,
    /// Records appended according to the REAL outcomes: (queue, position, payload, op index).
    pub really_appended: Vec<(String, u64, Bytes, usize)>,
}

impl Exec {
    pub fn new(dir: &Path, policy: Policy) -> Result<Exec, CaseError> {
        let (driver, outcome) = Driver::open(dir, policy)?;
        if outcome != Outcome::Restarted {
            return Err(CaseError::Engine(format!(
                "opening a fresh directory failed: {outcome:?}"
            )));
        }
        Ok(Exec {
            driver,
            model: Model::default(),
            policy0: policy,
            cops: Vec::new(),
            snapshots: Vec::new(),
            keep_snapshots: false,
            appended: Vec::new(),
            keep_appended: false,
            live: Vec::new(),
            keep_live: false,
            really_appended: Vec::new(),
        })
    }

    /// Continues on an already opened driver with a model seeded from `state`.
    pub fn resume(driver: Driver, state: &State) -> Exec {
        let policy0 = driver.policy;
        Exec {
            driver,
            model: Model::from_state(state),
            policy0,
            cops: Vec::new(),
            snapshots: Vec::new(),
            keep_snapshots: false,
            appended: Vec::new(),
            keep_appended: false,
            live: Vec::new(),
            keep_live: false,
            really_appended: Vec::new(),
        }
    }

    pub fn resolve(&self, sop: &SOp) -> COp {
        resolve(
            sop,
            &ResolveCtx {
                model: &self.model,
                cursor: self.driver.global_cursor(),
                file_bytes: file_bytes() as u64,
            },
        )
    }

    pub fn step(&mut self, sop: &SOp) -> Result<Step, CaseError> {
        let cop = self.resolve(sop);
        self.step_concrete(cop)
    }

    pub fn step_concrete(&mut self, cop: COp) -> Result<Step, CaseError> {
        let idx = self.cops.len();
        let payloads: Vec<Bytes> = match &cop {
            COp::Append { batch, .. } => batch.iter().map(|pay| Rc::from(pay.bytes())).collect(),
            _ => Vec::new(),
        };
        let file_at_begin = self.driver.tracer.cur_name.clone();
        let effects_start = self.driver.tracer.effects.len();
        self.driver.op_index = idx;
        let real = self.driver.apply(&cop, &payloads)?;
        let effects_end = self.driver.tracer.effects.len();
        let written = self.driver.tracer.op_write_bytes;
        let expected = self.model.apply(&cop, Some(&payloads));
        if self.keep_appended {
            if let (COp::Append { q, .. }, Outcome::Appended { last: Some(last) }) = (&cop, &expected)
            {
                let first = last + 1 - payloads.len() as u64;
                let name = q.text();
                for (offset, bytes) in payloads.iter().enumerate() {
                    self.appended
                        .push((name.clone(), first + offset as u64, bytes.clone()));
                }
            }
        }
        if let (COp::Append { q, .. }, Outcome::Appended { last: Some(last) }) = (&cop, &real.outcome) {
            // what the implementation says it appended (model-free)
            if *last + 1 >= payloads.len() as u64 {
                let first = last + 1 - payloads.len() as u64;
                let name = q.text();
                for (offset, bytes) in payloads.iter().enumerate() {
                    self.really_appended
                        .push((name.clone(), first + offset as u64, bytes.clone(), idx));
                }
            }
        }
        self.cops.push(cop.clone());
        if self.keep_snapshots {
            self.snapshots.push(self.model.state());
        }
        if self.keep_live {
            match self.driver.observe() {
                Ok(state) => self.live.push(state),
                Err(msg) => {
                    return Err(CaseError::Skip(format!(
                        "live-state-unobservable:{}",
                        msg.chars().take(40).collect::<String>()
                    )))
                }
            }
        }
        Ok(Step {
            idx,
            cop,
            expected,
            real,
            effects: effects_start..effects_end,
            written,
            file_at_begin,
        })
    }

    pub fn effects(&self) -> &[Effect] {
        &self.driver.tracer.effects
    }

    pub fn failure(&self, msg: String, signature: &str, extra: Value) -> CaseError {
        CaseError::Violation(Box::new(Failure {
            msg,
            signature: signature.to_string(),
            policy: self.policy0,
            ops: self.cops.clone(),
            extra,
        }))
    }

    /// For properties that do not own API conformance (that is C05): a call that fails (panic, I/O error) or whose
    /// outcome differs from the reference model makes the case undecidable for them — skipped, never a violation.
    pub fn conform_or_skip(&self, step: &Step) -> Result<(), CaseError> {
        if step.real.outcome != step.expected {
            let reason = match &step.real.outcome {
                Outcome::Panic(_) => "setup-call-panicked",
                Outcome::IoError(_) => "setup-call-io-error",
                Outcome::OpenFailed(_) => "setup-open-failed",
                _ => "setup-diverges-from-model",
            };
            return Err(CaseError::Skip(reason.to_string()));
        }
        Ok(())
    }

    /// Only fatal call failures (panic, I/O error, failed open) make the case undecidable; the outcome itself is not
    /// compared with the model.
    pub fn usable_or_skip(&self, step: &Step) -> Result<(), CaseError> {
        match &step.real.outcome {
            Outcome::Panic(_) => Err(CaseError::Skip("setup-call-panicked".to_string())),
            Outcome::IoError(_) => Err(CaseError::Skip("setup-call-io-error".to_string())),
            Outcome::OpenFailed(_) => Err(CaseError::Skip("setup-open-failed".to_string())),
            _ => Ok(()),
        }
    }

    /// Outcome of the real call must equal the model's.
    pub fn check_outcome(&self, step: &Step) -> Result<(), CaseError> {
        if step.real.outcome != step.expected {
            let signature = match &step.real.outcome {
                Outcome::Panic(_) => "panic-in-call",
                Outcome::IoError(_) => "io-error-in-call",
                Outcome::OpenFailed(_) => "open-failed",
                _ => "outcome-mismatch",
            };
            return Err(self.failure(
                format!(
                    "op #{} {}: model says {:?}, implementation returned {:?}",
                    step.idx,
                    step.cop.short(),
                    step.expected,
                    step.real.outcome
                ),
                signature,
                json!({}),
            ));
        }
        Ok(())
    }

    /// Full observation must equal the model state.
    pub fn check_state(&self, when: &str) -> Result<State, CaseError> {
        let observed = match self.driver.observe() {
            Ok(observed) => observed,
            Err(msg) => {
                return Err(self.failure(format!("{when}: {msg}"), "observe-failed", json!({})))
            }
        };
        if let Some(diff) = diff_states(&self.model.queues, &observed) {
            return Err(self.failure(
                format!("{when}: observable state differs from the model: {diff}"),
                "state-mismatch",
                json!({}),
            ));
        }
        Ok(observed)
    }

    /// Harness self-check: the directory image rebuilt from the recorded effects equals the real
    /// directory. Only meaningful when nothing is pending in the BufWriter or after a drop.
    pub fn selfcheck_image(&self, base: &Image) -> Result<Image, CaseError> {
        let mut image = base.clone();
        for effect in self.effects() {
            image.apply(effect);
        }
        let real = Image::from_dir(&self.driver.dir)
            .map_err(|err| CaseError::Engine(format!("cannot read scratch dir: {err}")))?;
        if real != image {
            let mut detail = format!(
                "trace-derived image [{}] != real directory [{}]",
                image.describe(),
                real.describe()
            );
            for (name, content) in &real.files {
                if let Some(other) = image.files.get(name) {
                    if other != content {
                        let first = content
                            .iter()
                            .zip(other.iter())
                            .position(|(a, b)| a != b)
                            .unwrap_or(content.len().min(other.len()));
                        detail.push_str(&format!("; {name} first differs at {first}"));
                    }
                }
            }
            return Err(CaseError::Engine(detail));
        }
        Ok(image)
    }
}

/// Image obtained by applying `effects[..upto]` to `base`.
pub fn image_at(base: &Image, effects: &[Effect], upto: usize) -> Image {
    let mut image = base.clone();
    for effect in &effects[..upto] {
        image.apply(effect);
    }
    image
}
