//! Runs concrete ops on the real `MultiRecordLog`, records outcomes and the I/O trace.

use std::ops::Bound;
use std::path::{Path, PathBuf};
use std::rc::Rc;

use mrecordlog::error::{AppendError, CreateQueueError, DeleteQueueError, TruncateError};
use mrecordlog::{verif_hooks, MultiRecordLog, PersistAction};

use crate::iotrace::Tracer;
use crate::model::{Bytes, Outcome, QState, State};
use crate::ops::{COp, Policy};
use crate::util::guarded;

pub struct Real {
    pub outcome: Outcome,
    /// `wal_bytes_written` reported by the call (0 when the call has no such field or failed).
    pub wal_bytes: u64,
}

pub struct Driver {
    pub dir: PathBuf,
    pub log: Option<MultiRecordLog>,
    pub policy: Policy,
    pub tracer: Tracer,
    /// Number of API calls issued so far (index of the next op).
    pub op_index: usize,
}

/// Engine error: the harness itself is broken (never a property violation).
#[derive(Debug)]
pub struct EngineError(pub String);

pub fn open_log(dir: &Path, policy: Policy) -> Result<Result<MultiRecordLog, String>, String> {
    // outer Err: panic; inner Err: open returned an error
    guarded(|| MultiRecordLog::open_with_prefs(dir, policy.to_real()).map_err(|err| format!("{err:?}")))
}

impl Driver {
    /// Opens (or creates) the log in `dir`. The open call is traced as op `op_index`.
    pub fn open(dir: &Path, policy: Policy) -> Result<(Driver, Outcome), EngineError> {
        verif_hooks::start_recording();
        let _ = verif_hooks::take_events();
        let mut driver = Driver {
            dir: dir.to_path_buf(),
            log: None,
            policy,
            tracer: Tracer::new(),
            op_index: 0,
        };
        let outcome = driver.do_open(usize::MAX)?;
        Ok((driver, outcome))
    }

    fn do_open(&mut self, op: usize) -> Result<Outcome, EngineError> {
        self.tracer.begin_op(op);
        let res = open_log(&self.dir, self.policy);
        let events = verif_hooks::take_events();
        self.tracer.feed(events).map_err(EngineError)?;
        self.tracer.end_op(op);
        Ok(match res {
            Ok(Ok(log)) => {
                self.log = Some(log);
                Outcome::Restarted
            }
            Ok(Err(err)) => Outcome::OpenFailed(err),
            Err(panic) => Outcome::Panic(panic),
        })
    }

    /// Drops the log (flushing the BufWriter) without re-opening.
    pub fn close(&mut self) -> Result<(), EngineError> {
        if let Some(log) = self.log.take() {
            let res = guarded(move || drop(log));
            let events = verif_hooks::take_events();
            self.tracer.feed(events).map_err(EngineError)?;
            self.tracer.on_drop();
            if let Err(panic) = res {
                return Err(EngineError(format!("panic while dropping the log: {panic}")));
            }
        }
        Ok(())
    }

    /// Applies one concrete op. `payloads`: the bytes of the batch (shared with the model).
    pub fn apply(&mut self, op: &COp, payloads: &[Bytes]) -> Result<Real, EngineError> {
        let op_index = self.op_index;
        self.op_index += 1;
        if let COp::Restart { policy } = op {
            self.close()?;
            if let Some(policy) = policy {
                self.policy = *policy;
            }
            let outcome = self.do_open(op_index)?;
            return Ok(Real {
                outcome,
                wal_bytes: 0,
            });
        }
        let Some(log) = self.log.as_mut() else {
            return Err(EngineError("apply on a closed log".to_string()));
        };
        self.tracer.begin_op(op_index);
        let res: Result<Real, String> = guarded(|| match op {
            COp::Create { q } => match log.create_queue(&q.text()) {
                Ok(outcome) => Real {
                    outcome: Outcome::Created,
                    wal_bytes: outcome.wal_bytes_written,
                },
                Err(CreateQueueError::AlreadyExists) => Real {
                    outcome: Outcome::CreateExists,
                    wal_bytes: 0,
                },
                Err(CreateQueueError::IoError(err)) => Real {
                    outcome: Outcome::IoError(err.to_string()),
                    wal_bytes: 0,
                },
            },
            COp::Delete { q } => match log.delete_queue(&q.text()) {
                Ok(outcome) => Real {
                    outcome: Outcome::Deleted,
                    wal_bytes: outcome.wal_bytes_written,
                },
                Err(DeleteQueueError::MissingQueue(_)) => Real {
                    outcome: Outcome::DeleteMissing,
                    wal_bytes: 0,
                },
                Err(DeleteQueueError::IoError(err)) => Real {
                    outcome: Outcome::IoError(err.to_string()),
                    wal_bytes: 0,
                },
            },
            COp::Append { q, pos, .. } => {
                // Callers pass any iterator: every third call hands the batch over through a `filter` that drops
                // interleaved dummy items, so that the iterator's size hint is inexact (lower bound 0, upper bound
                // larger than the real count — also for an EMPTY batch).
                // (chosen from the call's own arguments, so that the same call is made the same way in every run that
                // repeats it: projections, reference logs, other policies)
                let res = if crate::util::hash64(op) % 3 == 0 {
                    let dummy: &[u8] = b"never appended: dropped by the caller's filter";
                    let mut items: Vec<(bool, &[u8])> = vec![(false, dummy)];
                    for bytes in payloads {
                        items.push((true, &bytes[..]));
                        items.push((false, dummy));
                    }
                    log.append_records(
                        &q.text(),
                        *pos,
                        items.into_iter().filter(|(keep, _)| *keep).map(|(_, bytes)| bytes),
                    )
                } else {
                    log.append_records(&q.text(), *pos, payloads.iter().map(|bytes| &bytes[..]))
                };
                match res {
                    Ok(outcome) => Real {
                        outcome: Outcome::Appended {
                            last: outcome.last_position,
                        },
                        wal_bytes: outcome.wal_bytes_written,
                    },
                    Err(AppendError::MissingQueue(_)) => Real {
                        outcome: Outcome::AppendMissing,
                        wal_bytes: 0,
                    },
                    Err(AppendError::Past) => Real {
                        outcome: Outcome::AppendPast,
                        wal_bytes: 0,
                    },
                    Err(AppendError::IoError(err)) => Real {
                        outcome: Outcome::IoError(err.to_string()),
                        wal_bytes: 0,
                    },
                }
            }
            COp::Truncate { q, pos } => match log.truncate(&q.text(), ..=*pos) {
                Ok(outcome) => Real {
                    outcome: Outcome::Truncated {
                        evicted: outcome.evicted_records,
                    },
                    wal_bytes: outcome.wal_bytes_written,
                },
                Err(TruncateError::MissingQueue(_)) => Real {
                    outcome: Outcome::TruncateMissing,
                    wal_bytes: 0,
                },
                Err(TruncateError::IoError(err)) => Real {
                    outcome: Outcome::IoError(err.to_string()),
                    wal_bytes: 0,
                },
            },
            COp::Persist { fsync } => {
                let action = if *fsync {
                    PersistAction::FlushAndFsync
                } else {
                    PersistAction::Flush
                };
                match log.persist(action) {
                    Ok(()) => Real {
                        outcome: Outcome::Persisted,
                        wal_bytes: 0,
                    },
                    Err(err) => Real {
                        outcome: Outcome::IoError(err.to_string()),
                        wal_bytes: 0,
                    },
                }
            }
            COp::Restart { .. } => unreachable!(),
        });
        let events = verif_hooks::take_events();
        self.tracer.feed(events).map_err(EngineError)?;
        self.tracer.end_op(op_index);
        Ok(match res {
            Ok(real) => real,
            Err(panic) => Real {
                outcome: Outcome::Panic(panic),
                wal_bytes: 0,
            },
        })
    }

    pub fn observe(&self) -> Result<State, String> {
        let Some(log) = self.log.as_ref() else {
            return Err("observe on a closed log".to_string());
        };
        observe(log)
    }

    pub fn global_cursor(&self) -> u64 {
        self.tracer.global_cursor(crate::util::file_bytes() as u64)
    }
}

/// Full observation of a log through its public read API.
/// `Err` = a read accessor panicked or the accessors disagree with one another.
pub fn observe(log: &MultiRecordLog) -> Result<State, String> {
    guarded(|| -> Result<State, String> {
        let mut names: Vec<String> = log.list_queues().map(|name| name.to_string()).collect();
        names.sort();
        let mut state = State::new();
        for name in names {
            if !log.queue_exists(&name) {
                return Err(format!("list_queues lists {name:?} but queue_exists is false"));
            }
            let recs: Vec<(u64, Bytes)> = log
                .range(&name, (Bound::<u64>::Unbounded, Bound::<u64>::Unbounded))
                .map_err(|_| format!("range on listed queue {name:?} says missing"))?
                .map(|record| (record.position, Rc::from(&record.payload[..])))
                .collect();
            let last_position = log
                .last_position(&name)
                .map_err(|_| format!("last_position on listed queue {name:?} says missing"))?;
            let next = last_position.map(|pos| pos + 1).unwrap_or(0);
            if state.insert(name.clone(), QState { recs, next }).is_some() {
                return Err(format!("list_queues lists {name:?} twice"));
            }
        }
        Ok(state)
    })
    .map_err(|panic| format!("read accessor panicked: {panic}"))?
}
