//! Hook events -> ordered list of OS-level effects (DESIGN.md section 7), plus frame layout.

use std::collections::BTreeMap;
use std::path::Path;

use mrecordlog::verif_hooks::Event;

use crate::util::{BLOCK, FRAME_HEADER};

#[derive(Clone, Debug, PartialEq, Eq)]
pub enum Effect {
    Create { name: String },
    SetLen { name: String, len: u64 },
    /// Bytes handed to the OS (a `write` system call, or several consecutive ones).
    OsWrite { name: String, off: u64, data: Vec<u8> },
    Fsync { name: String },
    DirSync,
    Unlink { name: String },
    /// Start / end of API call number `op` (index into the concrete op list; `open` calls that
    /// are part of a Restart op carry that op's index).
    OpBegin { op: usize },
    OpEnd { op: usize },
    /// The log handle was dropped (everything buffered has been handed to the OS just before).
    Dropped,
}

/// One frame as written by the frame writer.
#[derive(Clone, Debug, PartialEq, Eq)]
pub struct FrameInfo {
    pub name: String,
    /// Offset of the frame header in the file.
    pub off: u64,
    /// Payload length (header excluded).
    pub payload_len: usize,
    pub frame_type: u8,
    /// Index of the API call during which it was written.
    pub op: usize,
    /// Sequence number of the WAL entry this frame belongs to (global over the trace).
    pub entry: usize,
    /// First byte of the entry (type tag: 1 truncate, 2 position, 3 delete, 4 append), when this is
    /// the first frame and it is non-empty; else 0.
    pub entry_tag: u8,
}

#[derive(Default)]
pub struct Tracer {
    pub effects: Vec<Effect>,
    pub frames: Vec<FrameInfo>,
    /// Bytes currently sitting in the BufWriter.
    pending: Vec<u8>,
    pending_name: String,
    pending_off: u64,
    /// Writer cursor (file name + offset), as known from the events.
    pub cur_name: String,
    pub cur_off: u64,
    current_op: usize,
    entry_counter: usize,
    in_entry: bool,
    /// Write events of the current op: (name, offset, len) — for C13/C15.
    pub op_write_bytes: u64,
    pub op_effect_start: usize,
    /// Padding bytes (end-of-block zero fill) written during the current op.
    pub op_padding_bytes: u64,
    /// Every file name the library created / opened / removed: (kind, name).
    pub names_seen: Vec<(&'static str, String)>,
    /// Index into `frames` of the first frame of the current op.
    pub op_frame_start: usize,
    /// File in which the last `open` positioned the writer (the file holding the end of the log at that moment,
    /// before any write of recovery's own GC).
    pub writer_at_open: String,
}

impl Tracer {
    pub fn new() -> Tracer {
        Tracer::default()
    }

    pub fn begin_op(&mut self, op: usize) {
        self.current_op = op;
        self.op_write_bytes = 0;
        self.op_padding_bytes = 0;
        self.op_frame_start = self.frames.len();
        self.op_effect_start = self.effects.len();
        self.effects.push(Effect::OpBegin { op });
    }

    pub fn end_op(&mut self, op: usize) {
        self.effects.push(Effect::OpEnd { op });
    }

    pub fn pending_len(&self) -> usize {
        self.pending.len()
    }

    /// Global cursor used to aim payload lengths.
    pub fn global_cursor(&self, file_bytes: u64) -> u64 {
        let number = crate::util::wal_number(&self.cur_name).unwrap_or(0);
        // only the position relative to block / file ends matters; avoid overflow for big numbers
        (number % 1024) * file_bytes + self.cur_off
    }

    fn flush_pending(&mut self) {
        if !self.pending.is_empty() {
            let data = std::mem::take(&mut self.pending);
            let len = data.len() as u64;
            self.effects.push(Effect::OsWrite {
                name: self.pending_name.clone(),
                off: self.pending_off,
                data,
            });
            self.pending_off += len;
        }
    }

    /// The log was dropped: the BufWriter flushes what it holds.
    pub fn on_drop(&mut self) {
        self.flush_pending();
        self.effects.push(Effect::Dropped);
    }

    /// The process "died": whatever is buffered is lost. Used by drivers that abandon a log
    /// without dropping it cleanly (never actually done; crash images are built from effects).
    pub fn discard_pending(&mut self) {
        self.pending.clear();
    }

    pub fn feed(&mut self, events: Vec<Event>) -> Result<(), String> {
        for event in events {
            match event {
                Event::Create { name } => {
                    self.names_seen.push(("create", name.clone()));
                    self.effects.push(Effect::Create { name })
                }
                Event::SetLen { name, len } => self.effects.push(Effect::SetLen { name, len }),
                Event::OpenFile { name } => self.names_seen.push(("open", name)),
                Event::Unlink { name } => {
                    self.names_seen.push(("unlink", name.clone()));
                    self.effects.push(Effect::Unlink { name })
                }
                Event::DirSync => self.effects.push(Effect::DirSync),
                Event::WriterAt { name, offset } => {
                    if !self.pending.is_empty() {
                        return Err("WriterAt with bytes pending in the tracer".to_string());
                    }
                    self.writer_at_open = name.clone();
                    self.cur_name = name;
                    self.cur_off = offset;
                }
                Event::Forward { num_bytes } => {
                    self.flush_pending();
                    self.cur_off += num_bytes;
                }
                Event::Write {
                    name,
                    offset,
                    bytes,
                    buffered_before,
                    buffered_after,
                } => {
                    if buffered_before != self.pending.len() {
                        return Err(format!(
                            "BufWriter held {buffered_before} bytes but the tracer expected {}",
                            self.pending.len()
                        ));
                    }
                    if self.pending.is_empty() {
                        self.pending_name = name.clone();
                        self.pending_off = offset;
                    } else if self.pending_name != name
                        || self.pending_off + self.pending.len() as u64 != offset
                    {
                        return Err(format!(
                            "non-contiguous write: pending {}@{}+{} then {}@{}",
                            self.pending_name,
                            self.pending_off,
                            self.pending.len(),
                            name,
                            offset
                        ));
                    }
                    self.record_frame(&name, offset, &bytes);
                    self.op_write_bytes += bytes.len() as u64;
                    let total = buffered_before + bytes.len();
                    if buffered_after > total {
                        return Err("buffered_after larger than buffered_before + len".to_string());
                    }
                    let emitted = total - buffered_after;
                    self.pending.extend_from_slice(&bytes);
                    if emitted > 0 {
                        let rest = self.pending.split_off(emitted);
                        let data = std::mem::replace(&mut self.pending, rest);
                        self.effects.push(Effect::OsWrite {
                            name: self.pending_name.clone(),
                            off: self.pending_off,
                            data,
                        });
                        self.pending_off += emitted as u64;
                    }
                    self.cur_name = name;
                    self.cur_off = offset + bytes.len() as u64;
                }
                Event::Flush { name } => {
                    if !self.pending.is_empty() && self.pending_name != name {
                        return Err("flush of a file other than the one with pending bytes".into());
                    }
                    self.flush_pending();
                }
                Event::Fsync { name } => self.effects.push(Effect::Fsync { name }),
                Event::Mark { .. } => {}
            }
        }
        Ok(())
    }

    fn record_frame(&mut self, name: &str, offset: u64, bytes: &[u8]) {
        let in_block = (offset as usize) % BLOCK;
        let is_padding = bytes.len() < FRAME_HEADER
            && in_block + bytes.len() == BLOCK
            && bytes.iter().all(|byte| *byte == 0);
        if is_padding || bytes.len() < FRAME_HEADER {
            self.op_padding_bytes += bytes.len() as u64;
            return;
        }
        let frame_type = bytes[6];
        let payload_len = u16::from_le_bytes([bytes[4], bytes[5]]) as usize;
        let is_first = frame_type == 1 || frame_type == 2;
        if is_first || !self.in_entry {
            self.entry_counter += 1;
        }
        self.in_entry = !(frame_type == 1 || frame_type == 4);
        let entry_tag = if is_first && payload_len > 0 {
            bytes[FRAME_HEADER]
        } else {
            0
        };
        self.frames.push(FrameInfo {
            name: name.to_string(),
            off: offset,
            payload_len,
            frame_type,
            op: self.current_op,
            entry: self.entry_counter,
            entry_tag,
        });
    }
}

// ---------------------------------------------------------------------------------------------
// Directory images

/// Content of the WAL files of a directory (regular files named wal-*).
#[derive(Clone, Debug, Default, PartialEq, Eq)]
pub struct Image {
    pub files: BTreeMap<String, Vec<u8>>,
}

impl Image {
    pub fn apply(&mut self, effect: &Effect) {
        match effect {
            Effect::Create { name } => {
                self.files.insert(name.clone(), Vec::new());
            }
            Effect::SetLen { name, len } => {
                if let Some(content) = self.files.get_mut(name) {
                    content.resize(*len as usize, 0);
                }
            }
            Effect::OsWrite { name, off, data } => {
                self.write(name, *off, data);
            }
            Effect::Unlink { name } => {
                self.files.remove(name);
            }
            Effect::Fsync { .. }
            | Effect::DirSync
            | Effect::OpBegin { .. }
            | Effect::OpEnd { .. }
            | Effect::Dropped => {}
        }
    }

    pub fn write(&mut self, name: &str, off: u64, data: &[u8]) {
        let content = self.files.entry(name.to_string()).or_default();
        let end = off as usize + data.len();
        if content.len() < end {
            content.resize(end, 0);
        }
        content[off as usize..end].copy_from_slice(data);
    }

    pub fn from_dir(dir: &Path) -> std::io::Result<Image> {
        let mut image = Image::default();
        for entry in std::fs::read_dir(dir)? {
            let entry = entry?;
            if !entry.file_type()?.is_file() {
                continue;
            }
            let name = entry.file_name().to_string_lossy().to_string();
            if crate::util::wal_number(&name).is_none() {
                continue;
            }
            image.files.insert(name, std::fs::read(entry.path())?);
        }
        Ok(image)
    }

    /// Writes the image into `dir` (which is emptied first).
    pub fn materialize(&self, dir: &Path) -> std::io::Result<()> {
        crate::util::clear_dir(dir);
        for (name, content) in &self.files {
            std::fs::write(dir.join(name), content)?;
        }
        Ok(())
    }

    pub fn total_bytes(&self) -> usize {
        self.files.values().map(|content| content.len()).sum()
    }

    pub fn describe(&self) -> String {
        let parts: Vec<String> = self
            .files
            .iter()
            .map(|(name, content)| {
                format!(
                    "{}:{}B",
                    crate::util::wal_number(name)
                        .map(|number| number.to_string())
                        .unwrap_or_else(|| name.clone()),
                    content.len()
                )
            })
            .collect();
        parts.join(" ")
    }
}
