//! Operation grammar: symbolic ops (generated, shrinkable), concrete ops (replayable), and the
//! resolution of the former into the latter against the reference model and the write cursor.

use proptest::prelude::*;
use serde::{Deserialize, Serialize};

use crate::model::Model;
use crate::util::{pick, BLOCK, FRAME_HEADER};

// ---------------------------------------------------------------------------------------------
// Concrete values

#[derive(Clone, Debug, Serialize, Deserialize, PartialEq, Eq, Hash)]
pub struct Pay {
    pub len: u32,
    pub seed: u64,
    pub style: u8,
}

impl Pay {
    pub fn bytes(&self) -> Vec<u8> {
        crate::util::fill(self.seed, self.len as usize, self.style)
    }
}

/// A queue name: `stem` repeated/cut to `len` bytes (`len == 0`: the stem itself).
#[derive(Clone, Debug, Serialize, Deserialize, PartialEq, Eq, Hash, PartialOrd, Ord)]
pub struct QName {
    pub stem: String,
    pub len: u32,
}

impl QName {
    pub fn plain(text: &str) -> QName {
        QName {
            stem: text.to_string(),
            len: 0,
        }
    }

    pub fn text(&self) -> String {
        if self.len == 0 || self.stem.is_empty() {
            return self.stem.clone();
        }
        let mut out = String::with_capacity(self.len as usize + 4);
        // The stem is ASCII whenever len != 0 (see `special_name`).
        while out.len() < self.len as usize {
            let room = self.len as usize - out.len();
            if room >= self.stem.len() {
                out.push_str(&self.stem);
            } else {
                out.push_str(&self.stem[..room]);
            }
        }
        out
    }
}

#[derive(Clone, Copy, Debug, Serialize, Deserialize, PartialEq, Eq, Hash)]
pub enum Policy {
    DoNothing,
    /// OnDelay with an interval of one hour (never due during a run).
    DelayHour { fsync: bool },
    /// OnDelay with a zero interval (always due).
    DelayZero { fsync: bool },
    /// OnDelay with a 1 µs interval.
    DelayMicro { fsync: bool },
    Always { fsync: bool },
}

impl Policy {
    pub fn to_real(self) -> mrecordlog::PersistPolicy {
        use mrecordlog::{PersistAction, PersistPolicy};
        use std::time::Duration;
        let action = |fsync: bool| {
            if fsync {
                PersistAction::FlushAndFsync
            } else {
                PersistAction::Flush
            }
        };
        match self {
            Policy::DoNothing => PersistPolicy::DoNothing,
            Policy::DelayHour { fsync } => PersistPolicy::OnDelay {
                interval: Duration::from_secs(3600),
                action: action(fsync),
            },
            Policy::DelayZero { fsync } => PersistPolicy::OnDelay {
                interval: Duration::from_nanos(0),
                action: action(fsync),
            },
            Policy::DelayMicro { fsync } => PersistPolicy::OnDelay {
                interval: Duration::from_micros(1),
                action: action(fsync),
            },
            Policy::Always { fsync } => PersistPolicy::Always(action(fsync)),
        }
    }

    pub const DEFAULT: Policy = Policy::Always { fsync: false };

    pub const ALL: [Policy; 9] = [
        Policy::DoNothing,
        Policy::DelayHour { fsync: false },
        Policy::DelayHour { fsync: true },
        Policy::DelayZero { fsync: false },
        Policy::DelayZero { fsync: true },
        Policy::DelayMicro { fsync: false },
        Policy::DelayMicro { fsync: true },
        Policy::Always { fsync: false },
        Policy::Always { fsync: true },
    ];
}

#[derive(Clone, Debug, Serialize, Deserialize, PartialEq, Eq, Hash)]
pub enum COp {
    Create { q: QName },
    Delete { q: QName },
    Append { q: QName, pos: Option<u64>, batch: Vec<Pay> },
    Truncate { q: QName, pos: u64 },
    Persist { fsync: bool },
    /// Drop the log and open the directory again (optionally with another policy).
    Restart { policy: Option<Policy> },
}

impl COp {
    pub fn queue(&self) -> Option<&QName> {
        match self {
            COp::Create { q } | COp::Delete { q } | COp::Append { q, .. } | COp::Truncate { q, .. } => {
                Some(q)
            }
            _ => None,
        }
    }

    pub fn short(&self) -> String {
        fn name(q: &QName) -> String {
            let text = q.text();
            if text.len() > 24 {
                format!("{}..({}B)", &text.chars().take(8).collect::<String>(), text.len())
            } else {
                text
            }
        }
        match self {
            COp::Create { q } => format!("create({})", name(q)),
            COp::Delete { q } => format!("delete({})", name(q)),
            COp::Append { q, pos, batch } => {
                let lens: Vec<String> = batch.iter().map(|pay| pay.len.to_string()).collect();
                format!("append({}, {:?}, [{}])", name(q), pos, lens.join(","))
            }
            COp::Truncate { q, pos } => format!("truncate({}, ..={})", name(q), pos),
            COp::Persist { fsync } => format!("persist(fsync={fsync})"),
            COp::Restart { policy } => format!("restart({policy:?})"),
        }
    }
}

// ---------------------------------------------------------------------------------------------
// Symbolic values

#[derive(Clone, Debug, PartialEq, Eq, Hash)]
pub enum QSel {
    /// Name number `i` of the pool (exists or not).
    Pool(u8),
    /// An existing queue chosen by a monotone fraction (falls back to `Pool(0)`).
    Existing(u16),
    /// Unusual names: see `special_name`.
    Special(u8),
    /// A literal name (used by projections / replays).
    Lit(QName),
}

#[derive(Clone, Debug, PartialEq, Eq, Hash)]
pub enum PosSel {
    Auto,
    Next,
    Retry,
    PastBy(u16),
    AheadBy(u16),
    Far(u64),
    Lit(Option<u64>),
}

#[derive(Clone, Debug, PartialEq, Eq, Hash)]
pub enum TruncSel {
    BelowStart,
    Mid(u16),
    Last,
    AheadBy(u16),
    Far(u64),
    Lit(u64),
}

#[derive(Clone, Debug, PartialEq, Eq, Hash)]
pub enum LenSel {
    Zero,
    Tiny(u16),
    Small(u16),
    Medium(u16),
    Blockish(u16),
    Fileish(u16),
    Huge(u16),
    /// 12 + len divides the payload capacity of a full-block frame (32761 = 181^2): 169 or 32749 bytes, so that
    /// records of a batch line up with frame boundaries.
    ItemAligned(bool),
    /// Entry ends `delta` bytes before the end of a block `blocks_ahead` blocks further.
    AimBlockEnd { delta: u8, blocks_ahead: u8 },
    /// Entry ends `delta` bytes before the end of the current WAL file.
    AimFileEnd { delta: u8 },
    /// Entry ends so that exactly 7 bytes remain in the block (next entry: empty first frame).
    AimSevenLeft { blocks_ahead: u8 },
    Lit(u32),
}

#[derive(Clone, Debug, PartialEq, Eq, Hash)]
pub struct PaySel {
    pub len: LenSel,
    pub seed: u64,
    pub style: u8,
}

#[derive(Clone, Debug, PartialEq, Eq, Hash)]
pub enum SOp {
    Create { q: QSel },
    Delete { q: QSel },
    Append { q: QSel, pos: PosSel, batch: Vec<PaySel> },
    Truncate { q: QSel, at: TruncSel },
    Persist { fsync: bool },
    Restart { policy: Option<Policy> },
    /// An already concrete op (replay files, projections).
    Lit(COp),
}

pub const POOL: [&str; 6] = ["q1", "q2", "alpha", "q", "q11", "日本語"];

pub fn special_name(kind: u8) -> QName {
    match kind % 8 {
        0 => QName::plain("x"),
        1 => QName::plain("éß∂"),
        2 => QName::plain("q1/sub"),
        3 => QName {
            stem: "n300-".to_string(),
            len: 300,
        },
        4 => QName {
            stem: "L".to_string(),
            len: 65_535,
        },
        5 => QName::plain("wal-00000000000000000000"),
        6 => QName::plain(" "),
        _ => QName {
            stem: "k32761-".to_string(),
            len: 32_761,
        },
    }
}

// ---------------------------------------------------------------------------------------------
// Generation

/// Relative weights; a zero disables the alternative.
#[derive(Clone, Debug)]
pub struct GenCfg {
    pub max_ops: usize,
    pub min_ops: usize,
    pub w_create: u32,
    pub w_delete: u32,
    pub w_append: u32,
    pub w_truncate: u32,
    pub w_persist: u32,
    pub w_restart: u32,
    /// Restart may change the policy.
    pub restart_policies: Vec<Policy>,
    pub max_batch: usize,
    pub pool: u8,
    pub w_special_names: u32,
    pub w_missing_names: u32,
    // payload length classes
    pub w_len: LenWeights,
    // position selectors
    pub w_pos_auto: u32,
    pub w_pos_next: u32,
    pub w_pos_retry: u32,
    pub w_pos_past: u32,
    pub w_pos_ahead: u32,
    pub w_pos_far: u32,
    // truncation selectors
    pub w_tr_below: u32,
    pub w_tr_mid: u32,
    pub w_tr_last: u32,
    pub w_tr_ahead: u32,
    pub w_tr_far: u32,
    /// Allow payload styles other than xorshift.
    pub styles: bool,
    /// Weight (out of 100) of multi-record batches among appends.
    pub w_multi_batch: u32,
    /// Percentage of histories into which a delete + re-create motif is spliced: create q, append a few records,
    /// delete q, create q again, append a batch whose range overlaps the old positions.
    pub w_recreate_motif: u32,
    /// Weight (added to the 100 above) of uniform batches of item-aligned records (169 B x many, 32749 B x few).
    pub w_aligned_batch: u32,
    /// Skew `QSel::Existing` towards the first queues (busy queues vs. idle ones).
    pub skew_queues: bool,
}

#[derive(Clone, Debug)]
pub struct LenWeights {
    pub zero: u32,
    pub tiny: u32,
    pub small: u32,
    pub medium: u32,
    pub blockish: u32,
    pub fileish: u32,
    pub huge: u32,
    pub aim_block: u32,
    pub aim_file: u32,
    pub aim_seven: u32,
}

impl Default for GenCfg {
    fn default() -> Self {
        GenCfg {
            max_ops: 60,
            min_ops: 1,
            w_create: 8,
            w_delete: 3,
            w_append: 50,
            w_truncate: 22,
            w_persist: 2,
            w_restart: 8,
            restart_policies: vec![],
            max_batch: 8,
            pool: 4,
            w_special_names: 1,
            w_missing_names: 4,
            w_len: LenWeights {
                zero: 4,
                tiny: 14,
                small: 14,
                medium: 16,
                blockish: 18,
                fileish: 12,
                huge: 1,
                aim_block: 8,
                aim_file: 4,
                aim_seven: 3,
            },
            w_pos_auto: 60,
            w_pos_next: 8,
            w_pos_retry: 5,
            w_pos_past: 5,
            w_pos_ahead: 10,
            w_pos_far: 2,
            w_tr_below: 6,
            w_tr_mid: 40,
            w_tr_last: 34,
            w_tr_ahead: 12,
            w_tr_far: 3,
            styles: true,
            w_multi_batch: 45,
            w_aligned_batch: 3,
            w_recreate_motif: 6,
            skew_queues: false,
        }
    }
}

fn weighted<T: Clone + std::fmt::Debug + 'static>(
    alternatives: Vec<(u32, BoxedStrategy<T>)>,
) -> BoxedStrategy<T> {
    let alternatives: Vec<(u32, BoxedStrategy<T>)> = alternatives
        .into_iter()
        .filter(|(weight, _)| *weight > 0)
        .collect();
    assert!(!alternatives.is_empty());
    proptest::strategy::Union::new_weighted(alternatives).boxed()
}

pub fn qsel_strategy(cfg: &GenCfg) -> BoxedStrategy<QSel> {
    let pool = cfg.pool.max(1);
    let existing = if cfg.skew_queues {
        (any::<u16>(), any::<u16>())
            .prop_map(|(a, b)| QSel::Existing(((a as u32 * b as u32) >> 16) as u16))
            .boxed()
    } else {
        any::<u16>().prop_map(QSel::Existing).boxed()
    };
    weighted(vec![
        (80, existing),
        (cfg.w_missing_names.max(1) * 3, (0..pool).prop_map(QSel::Pool).boxed()),
        (cfg.w_special_names, (0u8..8).prop_map(QSel::Special).boxed()),
    ])
}

fn create_qsel_strategy(cfg: &GenCfg) -> BoxedStrategy<QSel> {
    let pool = cfg.pool.max(1);
    weighted(vec![
        (90, (0..pool).prop_map(QSel::Pool).boxed()),
        (cfg.w_special_names * 4, (0u8..8).prop_map(QSel::Special).boxed()),
    ])
}

pub fn lensel_strategy(weights: &LenWeights) -> BoxedStrategy<LenSel> {
    weighted(vec![
        (weights.zero, Just(LenSel::Zero).boxed()),
        (weights.tiny, any::<u16>().prop_map(LenSel::Tiny).boxed()),
        (weights.small, any::<u16>().prop_map(LenSel::Small).boxed()),
        (weights.medium, any::<u16>().prop_map(LenSel::Medium).boxed()),
        (weights.blockish, any::<u16>().prop_map(LenSel::Blockish).boxed()),
        (weights.fileish, any::<u16>().prop_map(LenSel::Fileish).boxed()),
        (weights.huge, any::<u16>().prop_map(LenSel::Huge).boxed()),
        (
            weights.aim_block,
            (0u8..15, 0u8..3)
                .prop_map(|(delta, blocks_ahead)| LenSel::AimBlockEnd { delta, blocks_ahead })
                .boxed(),
        ),
        (
            weights.aim_file,
            (0u8..15).prop_map(|delta| LenSel::AimFileEnd { delta }).boxed(),
        ),
        (
            weights.aim_seven,
            (0u8..3)
                .prop_map(|blocks_ahead| LenSel::AimSevenLeft { blocks_ahead })
                .boxed(),
        ),
    ])
}

pub fn paysel_strategy(cfg: &GenCfg) -> BoxedStrategy<PaySel> {
    let style = if cfg.styles {
        weighted(vec![
            (80, Just(0u8).boxed()),
            (7, Just(1u8).boxed()),
            (5, Just(2u8).boxed()),
            (8, Just(3u8).boxed()),
        ])
    } else {
        Just(0u8).boxed()
    };
    (lensel_strategy(&cfg.w_len), any::<u64>(), style)
        .prop_map(|(len, seed, style)| PaySel { len, seed, style })
        .boxed()
}

pub fn possel_strategy(cfg: &GenCfg) -> BoxedStrategy<PosSel> {
    weighted(vec![
        (cfg.w_pos_auto, Just(PosSel::Auto).boxed()),
        (cfg.w_pos_next, Just(PosSel::Next).boxed()),
        (cfg.w_pos_retry, Just(PosSel::Retry).boxed()),
        (cfg.w_pos_past, (1u16..2000).prop_map(PosSel::PastBy).boxed()),
        (cfg.w_pos_ahead, (1u16..500).prop_map(PosSel::AheadBy).boxed()),
        (
            cfg.w_pos_far,
            (1u64..(1u64 << 58)).prop_map(PosSel::Far).boxed(),
        ),
    ])
}

pub fn truncsel_strategy(cfg: &GenCfg) -> BoxedStrategy<TruncSel> {
    weighted(vec![
        (cfg.w_tr_below, Just(TruncSel::BelowStart).boxed()),
        (cfg.w_tr_mid, any::<u16>().prop_map(TruncSel::Mid).boxed()),
        (cfg.w_tr_last, Just(TruncSel::Last).boxed()),
        (cfg.w_tr_ahead, (1u16..500).prop_map(TruncSel::AheadBy).boxed()),
        (
            cfg.w_tr_far,
            (1u64..(1u64 << 58)).prop_map(TruncSel::Far).boxed(),
        ),
    ])
}

pub fn batch_strategy(cfg: &GenCfg) -> BoxedStrategy<Vec<PaySel>> {
    let single = proptest::collection::vec(paysel_strategy(cfg), 1..=1).boxed();
    let max_batch = cfg.max_batch.max(1);
    if max_batch == 1 {
        return single;
    }
    let multi = proptest::collection::vec(paysel_strategy(cfg), 0..=max_batch).boxed();
    // uniform batches whose records line up with frame boundaries (a lost Middle frame leaves a well-formed splice)
    let aligned = (any::<bool>(), any::<u64>(), 2usize..=12, 150usize..=420)
        .prop_map(|(big, seed, count_big, count_small)| {
            let count = if big { count_big } else { count_small };
            (0..count)
                .map(|idx| PaySel { len: LenSel::ItemAligned(big), seed: seed.wrapping_add(idx as u64), style: 0 })
                .collect::<Vec<PaySel>>()
        })
        .boxed();
    weighted(vec![
        (100u32.saturating_sub(cfg.w_multi_batch), single),
        (cfg.w_multi_batch, multi),
        (cfg.w_aligned_batch, aligned),
    ])
}

pub fn sop_strategy(cfg: &GenCfg) -> BoxedStrategy<SOp> {
    let policies = cfg.restart_policies.clone();
    let restart_policy: BoxedStrategy<Option<Policy>> = if policies.is_empty() {
        Just(None).boxed()
    } else {
        weighted(vec![
            (1, Just(None).boxed()),
            (
                2,
                proptest::sample::select(policies).prop_map(Some).boxed(),
            ),
        ])
    };
    weighted(vec![
        (
            cfg.w_create,
            create_qsel_strategy(cfg).prop_map(|q| SOp::Create { q }).boxed(),
        ),
        (
            cfg.w_delete,
            qsel_strategy(cfg).prop_map(|q| SOp::Delete { q }).boxed(),
        ),
        (
            cfg.w_append,
            (qsel_strategy(cfg), possel_strategy(cfg), batch_strategy(cfg))
                .prop_map(|(q, pos, batch)| SOp::Append { q, pos, batch })
                .boxed(),
        ),
        (
            cfg.w_truncate,
            (qsel_strategy(cfg), truncsel_strategy(cfg))
                .prop_map(|(q, at)| SOp::Truncate { q, at })
                .boxed(),
        ),
        (
            cfg.w_persist,
            any::<bool>().prop_map(|fsync| SOp::Persist { fsync }).boxed(),
        ),
        (
            cfg.w_restart,
            restart_policy
                .prop_map(|policy| SOp::Restart { policy })
                .boxed(),
        ),
    ])
}

pub fn history_strategy(cfg: &GenCfg) -> BoxedStrategy<Vec<SOp>> {
    // A prelude of 0..=pool creations, so that most later calls address existing queues.
    let pool = cfg.pool.max(1);
    let prelude = weighted(vec![
        (1, Just(0u8).boxed()),
        (9, (1..=pool).boxed()),
    ]);
    let motif_weight = cfg.w_recreate_motif.min(100);
    let motif = weighted(vec![
        (100 - motif_weight, Just(None).boxed()),
        (
            motif_weight.max(1),
            (0..pool, any::<u16>(), 1usize..=4, 3usize..=8, any::<u64>(), any::<bool>())
                .prop_map(|choice| Some(choice))
                .boxed(),
        ),
    ]);
    (
        prelude,
        proptest::collection::vec(sop_strategy(cfg), cfg.min_ops..=cfg.max_ops),
        motif,
    )
        .prop_map(move |(prelude, mut ops, motif)| {
            if motif_weight > 0 {
                if let Some((queue, at, old_count, new_count, seed, filler)) = motif {
                    let q = || QSel::Pool(queue);
                    let pay = |idx: u64, len: LenSel| PaySel { len, seed: seed.wrapping_add(idx), style: 0 };
                    let mut motif_ops = vec![
                        SOp::Create { q: q() },
                        SOp::Append { q: q(), pos: PosSel::Auto, batch: (0..old_count as u64).map(|idx| pay(idx, LenSel::Small((idx as u16).wrapping_mul(7919)))).collect() },
                        SOp::Delete { q: q() },
                        SOp::Create { q: q() },
                    ];
                    if filler {
                        // something else in between (possibly moving the cursor into the next block)
                        motif_ops.push(SOp::Append { q: QSel::Existing(at), pos: PosSel::Auto, batch: vec![pay(99, LenSel::Blockish(at))] });
                    }
                    motif_ops.push(SOp::Append { q: q(), pos: PosSel::Auto, batch: (0..new_count as u64).map(|idx| pay(100 + idx, LenSel::Small((idx as u16).wrapping_mul(30_011)))).collect() });
                    let index = pick(at, ops.len() + 1);
                    let tail = ops.split_off(index);
                    ops.extend(motif_ops);
                    ops.extend(tail);
                }
            }
            let mut all: Vec<SOp> = (0..prelude).map(|idx| SOp::Create { q: QSel::Pool(idx) }).collect();
            all.append(&mut ops);
            all
        })
        .boxed()
}

// ---------------------------------------------------------------------------------------------
// Resolution

/// Simulates the frame writer: where does an entry of `entry_len` bytes end when it starts at
/// (global) offset `cursor`?
pub fn simulate_entry_end(mut cursor: u64, entry_len: u64) -> u64 {
    let block = BLOCK as u64;
    let header = FRAME_HEADER as u64;
    let mut left = entry_len;
    loop {
        let mut remaining = block - cursor % block;
        if remaining < header {
            cursor += remaining;
            remaining = block;
        }
        let capacity = remaining - header;
        let take = capacity.min(left);
        cursor += header + take;
        left -= take;
        if left == 0 {
            return cursor;
        }
    }
}

/// Smallest payload length of the *first* record of an entry such that the entry ends at or just
/// after the global offset `target` (`fixed` = entry bytes excluding that payload).
fn aim_len(cursor: u64, fixed: u64, target: u64) -> u32 {
    let (mut lo, mut hi) = (0u64, 400_000u64 * crate::util::len_scale() as u64);
    if simulate_entry_end(cursor, fixed) >= target {
        return 0;
    }
    while lo + 1 < hi {
        let mid = (lo + hi) / 2;
        if simulate_entry_end(cursor, fixed + mid) >= target {
            hi = mid;
        } else {
            lo = mid;
        }
    }
    hi as u32
}

pub struct ResolveCtx<'a> {
    pub model: &'a Model,
    /// Global write cursor: file_number * FILE_NUM_BYTES + offset in file (only its value modulo the
    /// file size matters).
    pub cursor: u64,
    pub file_bytes: u64,
}

pub fn resolve_qsel(q: &QSel, model: &Model) -> QName {
    match q {
        QSel::Pool(idx) => QName::plain(POOL[(*idx as usize) % POOL.len()]),
        QSel::Existing(frac) => {
            let names: Vec<&QName> = model.names.values().collect();
            if names.is_empty() {
                QName::plain(POOL[0])
            } else {
                names[pick(*frac, names.len())].clone()
            }
        }
        QSel::Special(kind) => special_name(*kind),
        QSel::Lit(name) => name.clone(),
    }
}

pub fn resolve(op: &SOp, ctx: &ResolveCtx) -> COp {
    match op {
        SOp::Lit(cop) => cop.clone(),
        SOp::Create { q } => COp::Create {
            q: resolve_qsel(q, ctx.model),
        },
        SOp::Delete { q } => COp::Delete {
            q: resolve_qsel(q, ctx.model),
        },
        SOp::Persist { fsync } => COp::Persist { fsync: *fsync },
        SOp::Restart { policy } => COp::Restart { policy: *policy },
        SOp::Truncate { q, at } => {
            let q = resolve_qsel(q, ctx.model);
            let (first, next) = ctx
                .model
                .queues
                .get(&q.text())
                .map(|queue| (queue.first_position(), queue.next))
                .unwrap_or((0, 0));
            let pos = match at {
                TruncSel::BelowStart => first.saturating_sub(1),
                TruncSel::Mid(frac) => {
                    let span = next.saturating_sub(first);
                    if span == 0 {
                        next.saturating_sub(1)
                    } else {
                        first + crate::util::pick32((*frac as u32) << 16, span)
                    }
                }
                TruncSel::Last => next.saturating_sub(1),
                TruncSel::AheadBy(k) => next.saturating_sub(1) + *k as u64,
                TruncSel::Far(jump) => next + *jump,
                TruncSel::Lit(pos) => *pos,
            };
            COp::Truncate { q, pos }
        }
        SOp::Append { q, pos, batch } => {
            let q = resolve_qsel(q, ctx.model);
            let name_len = q.text().len() as u64;
            let next = ctx
                .model
                .queues
                .get(&q.text())
                .map(|queue| queue.next)
                .unwrap_or(0);
            let pos = match pos {
                PosSel::Auto => None,
                PosSel::Next => Some(next),
                PosSel::Retry => Some(next.saturating_sub(1)),
                PosSel::PastBy(k) => Some(next.saturating_sub(1 + *k as u64)),
                PosSel::AheadBy(k) => Some(next + *k as u64),
                PosSel::Far(jump) => Some(next + *jump),
                PosSel::Lit(pos) => *pos,
            };
            let mut pays: Vec<Pay> = Vec::with_capacity(batch.len());
            // Bytes of the entry that do not depend on the aimed payload: header + name, plus the
            // 12-byte record headers and the other payloads (computed below in two passes).
            let mut aimed_idx: Option<(usize, LenSel)> = None;
            for (idx, pay) in batch.iter().enumerate() {
                let len = match &pay.len {
                    LenSel::Zero => 0,
                    LenSel::Tiny(frac) => 1 + pick(*frac, 16) as u32,
                    LenSel::Small(frac) => 17 + pick(*frac, 284) as u32,
                    LenSel::Medium(frac) => 1 + pick(*frac, 8 * 1024) as u32,
                    LenSel::Blockish(frac) => (20_000 + pick(*frac, 25_000) as u32) * crate::util::len_scale(),
                    LenSel::Fileish(frac) => (60_000 + pick(*frac, 90_000) as u32) * crate::util::len_scale(),
                    LenSel::Huge(frac) => (280_000 + pick(*frac, 40_000) as u32) * crate::util::len_scale(),
                    LenSel::ItemAligned(big) => {
                        if *big {
                            32_749
                        } else {
                            169
                        }
                    }
                    LenSel::Lit(len) => *len,
                    aimed => {
                        if aimed_idx.is_none() {
                            aimed_idx = Some((idx, aimed.clone()));
                            0
                        } else {
                            // only one aimed payload per batch; the others become tiny
                            3
                        }
                    }
                };
                pays.push(Pay {
                    len,
                    seed: pay.seed,
                    style: pay.style,
                });
            }
            if let Some((idx, aimed)) = aimed_idx {
                let fixed: u64 = 11
                    + name_len
                    + pays
                        .iter()
                        .map(|pay| 12 + pay.len as u64)
                        .sum::<u64>();
                let block = BLOCK as u64;
                let cursor = ctx.cursor;
                let block_end = |blocks_ahead: u64| (cursor / block + 1 + blocks_ahead) * block;
                let target = match aimed {
                    LenSel::AimBlockEnd { delta, blocks_ahead } => {
                        block_end(blocks_ahead as u64) - delta as u64
                    }
                    LenSel::AimFileEnd { delta } => {
                        (cursor / ctx.file_bytes + 1) * ctx.file_bytes - delta as u64
                    }
                    LenSel::AimSevenLeft { blocks_ahead } => block_end(blocks_ahead as u64) - 7,
                    _ => unreachable!(),
                };
                pays[idx].len = aim_len(cursor, fixed, target);
            }
            COp::Append { q, pos, batch: pays }
        }
    }
}
