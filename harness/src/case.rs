//! Case / replay / failure types shared by all properties, and the per-worker statistics.

use std::collections::{BTreeMap, HashSet};

use serde::{Deserialize, Serialize};
use serde_json::{json, Value};

use crate::ops::{COp, Policy, SOp};
use crate::util::Scratch;

#[derive(Clone, Copy, Debug, PartialEq, Eq)]
pub enum Tier {
    Quick,
    Thorough,
}

impl Tier {
    pub fn name(self) -> &'static str {
        match self {
            Tier::Quick => "quick",
            Tier::Thorough => "thorough",
        }
    }
}

/// A generated (or replayed) case. `words` are generated integers that properties use for their own
/// choices (crash cuts, damage selectors, ...): everything random comes from proptest.
#[derive(Clone, Debug)]
pub struct Case {
    pub policy: Policy,
    pub ops: Vec<SOp>,
    /// Continuation history (run after a recovery), when the property uses one.
    pub cont: Vec<SOp>,
    pub words: Vec<u32>,
    /// Present when replaying a file: property-specific explicit choices.
    pub extra: Option<Value>,
}

#[derive(Clone, Debug, Serialize, Deserialize)]
pub struct ReplayFile {
    pub property: String,
    pub policy: Policy,
    pub ops: Vec<COp>,
    #[serde(default)]
    pub extra: Value,
    #[serde(default)]
    pub note: String,
    #[serde(default)]
    pub signature: String,
}

impl ReplayFile {
    pub fn to_case(&self) -> Case {
        Case {
            policy: self.policy,
            ops: self.ops.iter().cloned().map(SOp::Lit).collect(),
            cont: self
                .extra
                .get("cont")
                .and_then(|value| serde_json::from_value::<Vec<COp>>(value.clone()).ok())
                .map(|list| list.into_iter().map(SOp::Lit).collect())
                .unwrap_or_default(),
            words: self
                .extra
                .get("words")
                .and_then(|value| value.as_array())
                .map(|list| {
                    list.iter()
                        .map(|item| item.as_u64().unwrap_or(0) as u32)
                        .collect()
                })
                .unwrap_or_default(),
            extra: Some(self.extra.clone()),
        }
    }
}

#[derive(Clone, Debug)]
pub struct Failure {
    pub msg: String,
    /// Short structural signature, matched against KNOWN_FINDINGS.txt.
    pub signature: String,
    pub policy: Policy,
    pub ops: Vec<COp>,
    pub extra: Value,
}

impl Failure {
    pub fn to_replay(&self, property: &str) -> ReplayFile {
        ReplayFile {
            property: property.to_string(),
            policy: self.policy,
            ops: self.ops.clone(),
            extra: self.extra.clone(),
            note: self.msg.clone(),
            signature: self.signature.clone(),
        }
    }
}

#[derive(Debug)]
pub enum CaseError {
    Violation(Box<Failure>),
    /// The harness itself is broken or could not run the case: never a violation.
    Engine(String),
    /// The case cannot decide THIS property (e.g. the set-up history already diverges from the reference model,
    /// which is another property's concern): counted, never a violation.
    Skip(String),
}

impl From<crate::driver::EngineError> for CaseError {
    fn from(err: crate::driver::EngineError) -> CaseError {
        CaseError::Engine(err.0)
    }
}

/// Statistics accumulated by a worker.
#[derive(Default)]
pub struct Stats {
    /// Cases executed (top-level generated cases).
    pub cases: u64,
    /// Individual evaluations of the oracle (crash points, damaged images, probes, ...).
    pub evaluations: u64,
    pub classes: BTreeMap<String, u64>,
    pub nontrivial: HashSet<u64>,
    pub samples: Vec<Value>,
    pub known_hits: BTreeMap<String, u64>,
    pub notes: BTreeMap<String, u64>,
}

impl Stats {
    pub fn class(&mut self, name: &str) {
        *self.classes.entry(name.to_string()).or_insert(0) += 1;
    }

    pub fn class_n(&mut self, name: &str, n: u64) {
        if n > 0 {
            *self.classes.entry(name.to_string()).or_insert(0) += n;
        }
    }

    pub fn sample(&mut self, value: Value) {
        if self.samples.len() < 4 {
            self.samples.push(value);
        }
    }

    pub fn want_sample(&self) -> bool {
        self.samples.len() < 4
    }

    pub fn merge(&mut self, other: Stats) {
        self.cases += other.cases;
        self.evaluations += other.evaluations;
        for (name, count) in other.classes {
            *self.classes.entry(name).or_insert(0) += count;
        }
        self.nontrivial.extend(other.nontrivial);
        for sample in other.samples {
            self.sample(sample);
        }
        for (name, count) in other.known_hits {
            *self.known_hits.entry(name).or_insert(0) += count;
        }
        for (name, count) in other.notes {
            *self.notes.entry(name).or_insert(0) += count;
        }
    }

    pub fn to_json(&self) -> Value {
        json!({
            "cases": self.cases,
            "evaluations": self.evaluations,
            "classes": self.classes,
            "samples": self.samples,
            "known_hits": self.known_hits,
            "notes": self.notes,
        })
    }

    pub fn from_json(value: &Value) -> Stats {
        let mut stats = Stats::default();
        stats.cases = value["cases"].as_u64().unwrap_or(0);
        stats.evaluations = value["evaluations"].as_u64().unwrap_or(0);
        if let Some(map) = value["classes"].as_object() {
            for (name, count) in map {
                stats.classes.insert(name.clone(), count.as_u64().unwrap_or(0));
            }
        }
        if let Some(list) = value["samples"].as_array() {
            stats.samples = list.clone();
        }
        if let Some(map) = value["known_hits"].as_object() {
            for (name, count) in map {
                stats
                    .known_hits
                    .insert(name.clone(), count.as_u64().unwrap_or(0));
            }
        }
        if let Some(map) = value["notes"].as_object() {
            for (name, count) in map {
                stats.notes.insert(name.clone(), count.as_u64().unwrap_or(0));
            }
        }
        stats
    }
}

/// Everything a property needs while running a case.
pub struct Env {
    pub tier: Tier,
    pub scratch: Scratch,
    pub stats: Stats,
    /// Statistics are only accumulated while this is set (off during shrinking).
    pub counting: bool,
    /// Strict mode (replay): known findings are reported as failures with their signature.
    pub strict: bool,
    /// Where to note the case about to run (properties for which a hang / abort is the violation).
    pub track_path: Option<std::path::PathBuf>,
}

impl Env {
    pub fn new(tier: Tier) -> Env {
        Env {
            tier,
            scratch: Scratch::new(),
            stats: Stats::default(),
            counting: true,
            strict: false,
            track_path: None,
        }
    }

    pub fn class(&mut self, name: &str) {
        if self.counting {
            self.stats.class(name);
        }
    }

    pub fn class_n(&mut self, name: &str, n: u64) {
        if self.counting {
            self.stats.class_n(name, n);
        }
    }

    pub fn evals(&mut self, n: u64) {
        if self.counting {
            self.stats.evaluations += n;
        }
    }

    pub fn nontrivial(&mut self, hash: u64) {
        if self.counting {
            self.stats.nontrivial.insert(hash);
        }
    }

    pub fn sample(&mut self, make: impl FnOnce() -> Value) {
        if self.counting && self.stats.want_sample() {
            let value = make();
            self.stats.sample(value);
        }
    }

    /// Notes the concrete case that is about to be handed to the library, so that the parent can
    /// report it if this process hangs or dies; also restarts the per-case watchdog.
    pub fn track(&mut self, make: impl FnOnce() -> ReplayFile) {
        CASE_STARTED.store(now_secs(), std::sync::atomic::Ordering::Relaxed);
        if let Some(path) = &self.track_path {
            let replay = make();
            let _ = std::fs::write(path, serde_json::to_vec(&replay).unwrap_or_default());
        }
    }

    pub fn note(&mut self, name: &str) {
        if self.counting {
            *self.stats.notes.entry(name.to_string()).or_insert(0) += 1;
        }
    }
}

pub fn ops_sample(ops: &[COp]) -> Value {
    let list: Vec<String> = ops.iter().map(|op| op.short()).collect();
    json!(list)
}

pub static CASE_STARTED: std::sync::atomic::AtomicU64 = std::sync::atomic::AtomicU64::new(0);

pub fn now_secs() -> u64 {
    // monotonic seconds since the first call (only used by the hang watchdog)
    use std::sync::OnceLock;
    static START: OnceLock<std::time::Instant> = OnceLock::new();
    START.get_or_init(std::time::Instant::now).elapsed().as_secs() + 1
}
