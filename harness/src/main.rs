#![allow(dead_code)]

use std::path::PathBuf;

use verif_harness::case::{CaseError, Tier};
use verif_harness::{props, runner, util};

fn usage() -> ! {
    eprintln!(
        "usage: verif-harness <ID> [--tier quick|thorough] [--seed N] [--replay FILE]\n       verif-harness --list"
    );
    std::process::exit(2);
}

fn main() {
    util::install_quiet_panic_hook();
    let args: Vec<String> = std::env::args().skip(1).collect();
    if args.is_empty() {
        usage();
    }
    if args[0] == "--list" {
        for property in props::all() {
            println!("{}", property.id());
        }
        return;
    }
    let mut id: Option<String> = None;
    let mut tier = match std::env::var("VERIF_TIER").ok().as_deref() {
        Some("thorough") => Tier::Thorough,
        _ => Tier::Quick,
    };
    let mut seed = runner::seed_from_env();
    let mut replay: Option<PathBuf> = None;
    let mut worker = false;
    let mut shard = 0u32;
    let mut shards = 1u32;
    let mut report: Option<PathBuf> = None;
    let mut iter = args.into_iter();
    while let Some(arg) = iter.next() {
        match arg.as_str() {
            "--worker" => {
                worker = true;
                id = iter.next();
            }
            "--tier" => {
                tier = match iter.next().as_deref() {
                    Some("quick") => Tier::Quick,
                    Some("thorough") => Tier::Thorough,
                    _ => usage(),
                }
            }
            "--seed" => seed = iter.next().and_then(|text| text.parse().ok()).unwrap_or_else(|| usage()),
            "--replay" => replay = iter.next().map(PathBuf::from),
            "--shard" => shard = iter.next().and_then(|text| text.parse().ok()).unwrap_or_else(|| usage()),
            "--shards" => shards = iter.next().and_then(|text| text.parse().ok()).unwrap_or_else(|| usage()),
            "--report" => report = iter.next().map(PathBuf::from),
            other if id.is_none() && !other.starts_with("--") => id = Some(other.to_string()),
            _ => usage(),
        }
    }
    let Some(id) = id else { usage() };
    let Some(property) = props::by_id(&id) else {
        eprintln!("unknown property {id}");
        std::process::exit(2);
    };
    if worker {
        let Some(report) = report else { usage() };
        let code = runner::worker_main(property.as_ref(), tier, seed, shard, shards, &report);
        std::process::exit(code);
    }
    if let Some(path) = replay {
        match runner::replay_file(property.as_ref(), &path, true) {
            Ok(()) => {
                println!("replay {}: property held", path.display());
                std::process::exit(0);
            }
            Err(CaseError::Violation(failure)) => {
                println!("replay {}: {}", path.display(), failure.msg);
                println!("signature: {}", failure.signature);
                println!("VIOLATION property={id} replay={}", path.display());
                std::process::exit(1);
            }
            Err(CaseError::Engine(msg)) => {
                println!("ENGINE-ERROR: {msg}");
                std::process::exit(2);
            }
            Err(CaseError::Skip(reason)) => {
                println!("replay {}: case cannot decide this property on this tree ({reason})", path.display());
                std::process::exit(0);
            }
        }
    }
    let code = runner::parent_main(property.as_ref(), tier, seed);
    std::process::exit(code);
}
