//! Recovery from a crash / damaged image, and the oracles shared by the crash properties.

use std::path::Path;

use crate::case::CaseError;
use crate::driver::Driver;
use crate::iotrace::Image;
use crate::model::{Outcome, State};
use crate::ops::{COp, Policy};

pub struct Recovered {
    pub driver: Driver,
    pub state: State,
}

pub enum RecoverError {
    /// open returned an error
    OpenFailed(String),
    /// open panicked
    Panic(String),
    /// a read accessor panicked / disagreed
    Observe(String),
    Engine(String),
}

/// Materialises `image` into `dir` and opens it with the real code.
pub fn recover(image: &Image, dir: &Path, policy: Policy) -> Result<Recovered, RecoverError> {
    image
        .materialize(dir)
        .map_err(|err| RecoverError::Engine(format!("cannot materialise image: {err}")))?;
    recover_dir(dir, policy)
}

pub fn recover_dir(dir: &Path, policy: Policy) -> Result<Recovered, RecoverError> {
    let (driver, outcome) = match Driver::open(dir, policy) {
        Ok(pair) => pair,
        Err(err) => return Err(RecoverError::Engine(err.0)),
    };
    match outcome {
        Outcome::Restarted => {}
        Outcome::OpenFailed(msg) => return Err(RecoverError::OpenFailed(msg)),
        Outcome::Panic(msg) => return Err(RecoverError::Panic(msg)),
        other => return Err(RecoverError::Engine(format!("unexpected open outcome {other:?}"))),
    }
    let state = driver.observe().map_err(RecoverError::Observe)?;
    Ok(Recovered { driver, state })
}

impl RecoverError {
    pub fn into_case_error(self) -> Result<(String, &'static str), CaseError> {
        match self {
            RecoverError::OpenFailed(msg) => Ok((format!("open failed: {msg}"), "open-failed")),
            RecoverError::Panic(msg) => Ok((format!("open panicked: {msg}"), "open-panicked")),
            RecoverError::Observe(msg) => Ok((msg, "observe-failed")),
            RecoverError::Engine(msg) => Err(CaseError::Engine(msg)),
        }
    }
}

/// Builds, in the empty directory `dir`, a log that never crashed and whose observable state equals `state`:
/// create every queue, append every record at its explicit position, and move emptied queues forward with a
/// truncate. Returns an error text if the public API cannot reproduce the state (then nothing can be compared).
pub fn build_equivalent(dir: &Path, policy: Policy, state: &State) -> Result<Driver, String> {
    crate::util::clear_dir(dir);
    let (mut driver, outcome) = Driver::open(dir, policy).map_err(|err| err.0)?;
    if outcome != Outcome::Restarted {
        return Err(format!("cannot open a fresh directory: {outcome:?}"));
    }
    let built = crate::util::guarded(|| -> Result<(), String> {
        let log = driver.log.as_mut().unwrap();
        for (name, queue) in state {
            log.create_queue(name).map_err(|err| format!("create_queue: {err}"))?;
            for (pos, bytes) in &queue.recs {
                let outcome = log
                    .append_record(name, Some(*pos), &bytes[..])
                    .map_err(|err| format!("append_record: {err}"))?;
                if outcome.last_position != Some(*pos) {
                    return Err(format!("append at explicit position {pos} returned {:?}", outcome.last_position));
                }
            }
            if queue.recs.is_empty() && queue.next > 0 {
                log.truncate(name, ..=queue.next - 1).map_err(|err| format!("truncate: {err}"))?;
            }
        }
        Ok(())
    });
    match built {
        Ok(Ok(())) => {}
        Ok(Err(msg)) => return Err(msg),
        Err(panic) => return Err(format!("panic: {panic}")),
    }
    let events = mrecordlog::verif_hooks::take_events();
    driver.tracer.feed(events)?;
    let observed = driver.observe()?;
    if observed != *state {
        return Err("the rebuilt log does not show the wanted state".to_string());
    }
    Ok(driver)
}

/// `got` equals `prev` except that the in-flight truncate / delete_queue `cop` is seen partially
/// applied: some of the oldest records it targets are already gone from its queue, nothing else.
pub fn matches_partial(prev: &State, got: &State, cop: &COp) -> bool {
    let (name, limit) = match cop {
        COp::Truncate { q, pos } => (q.text(), Some(*pos)),
        COp::Delete { q } => (q.text(), None),
        _ => return false,
    };
    if prev.len() != got.len() {
        return false;
    }
    for (queue_name, queue) in prev {
        let Some(other) = got.get(queue_name) else {
            return false;
        };
        if *queue_name != name {
            if queue != other {
                return false;
            }
            continue;
        }
        if queue.next != other.next {
            return false;
        }
        if other.recs.len() > queue.recs.len() {
            return false;
        }
        let removed = queue.recs.len() - other.recs.len();
        if queue.recs[removed..] != other.recs[..] {
            return false;
        }
        if let Some(limit) = limit {
            if queue.recs[..removed].iter().any(|(pos, _)| *pos > limit) {
                return false;
            }
        }
    }
    true
}
