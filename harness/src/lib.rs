#![allow(dead_code)]
//! Verification harness for quickwit-oss/mrecordlog (library part: shared by the binary and the fuzz targets).

pub mod case;
pub mod crash;
pub mod damage;
pub mod driver;
pub mod exec;
pub mod findings;
pub mod iotrace;
pub mod model;
pub mod ops;
pub mod props;
pub mod recover;
pub mod runner;
pub mod util;
