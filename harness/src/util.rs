//! Small helpers: deterministic hashing, payload bytes, scratch directories, panic capture.

use std::collections::hash_map::DefaultHasher;
use std::hash::{Hash, Hasher};
use std::panic::{catch_unwind, AssertUnwindSafe};
use std::path::{Path, PathBuf};

pub const BLOCK: usize = mrecordlog::BLOCK_NUM_BYTES;
pub const FRAME_HEADER: usize = 7;

pub fn file_bytes() -> usize {
    mrecordlog::verif_hooks::FILE_NUM_BYTES
}

/// Multiplier for the large payload classes (VERIF_LEN_SCALE; used with the production file geometry, where a
/// roll-over needs 128 MiB of entries).
pub fn len_scale() -> u32 {
    use std::sync::OnceLock;
    static SCALE: OnceLock<u32> = OnceLock::new();
    *SCALE.get_or_init(|| {
        std::env::var("VERIF_LEN_SCALE")
            .ok()
            .and_then(|text| text.parse::<u32>().ok())
            .unwrap_or(1)
            .clamp(1, 4096)
    })
}

/// Deterministic 64-bit hash (SipHash with fixed keys).
pub fn hash64<T: Hash + ?Sized>(value: &T) -> u64 {
    let mut hasher = DefaultHasher::new();
    value.hash(&mut hasher);
    hasher.finish()
}

pub fn mix(a: u64, b: u64) -> u64 {
    hash64(&(a, b))
}

pub fn hash_str(text: &str) -> u64 {
    hash64(text)
}

/// splitmix64, used to derive values from generated seeds (never an RNG of its own:
/// every seed comes from a proptest-generated value).
pub fn splitmix(state: &mut u64) -> u64 {
    *state = state.wrapping_add(0x9E37_79B9_7F4A_7C15);
    let mut z = *state;
    z = (z ^ (z >> 30)).wrapping_mul(0xBF58_476D_1CE4_E5B9);
    z = (z ^ (z >> 27)).wrapping_mul(0x94D0_49BB_1331_11EB);
    z ^ (z >> 31)
}

/// Monotone index mapping: `frac` in 0..=65535 onto 0..n.
pub fn pick(frac: u16, n: usize) -> usize {
    if n == 0 {
        return 0;
    }
    ((frac as usize) * n) >> 16
}

/// Monotone mapping of a 32-bit fraction onto 0..n.
pub fn pick32(frac: u32, n: u64) -> u64 {
    if n == 0 {
        return 0;
    }
    (((frac as u128) * (n as u128)) >> 32) as u64
}

/// Payload bytes: a pure function of (seed, len, style).
/// style 0: xorshift bytes; 1: zeros; 2: 0xFF; 3: short period (wrap-sensitive);
pub fn fill(seed: u64, len: usize, style: u8) -> Vec<u8> {
    let mut out = Vec::with_capacity(len);
    match style {
        1 => out.resize(len, 0u8),
        2 => out.resize(len, 0xFFu8),
        3 => {
            let period = 1 + (seed % 251) as usize;
            let base = (seed >> 8) as u8;
            for idx in 0..len {
                out.push(base.wrapping_add((idx % period) as u8));
            }
        }
        _ => {
            let mut state = seed ^ 0xD1B5_4A32_D192_ED03;
            while out.len() + 8 <= len {
                out.extend_from_slice(&splitmix(&mut state).to_le_bytes());
            }
            let rest = len - out.len();
            if rest > 0 {
                let word = splitmix(&mut state).to_le_bytes();
                out.extend_from_slice(&word[..rest]);
            }
        }
    }
    out
}

/// Scratch root: tmpfs if available, else a fresh directory under $TMPDIR or /tmp.
/// Created by the run itself and removed by it.
pub fn scratch_root() -> PathBuf {
    let pid = std::process::id();
    let shm = Path::new("/dev/shm");
    if shm.is_dir() {
        let candidate = shm.join(format!("verif-{pid}"));
        if std::fs::create_dir_all(&candidate).is_ok() {
            return candidate;
        }
    }
    let base = std::env::var_os("TMPDIR")
        .map(PathBuf::from)
        .unwrap_or_else(|| PathBuf::from("/tmp"));
    let candidate = base.join(format!("verif-{pid}"));
    std::fs::create_dir_all(&candidate).expect("cannot create scratch directory");
    candidate
}

pub struct Scratch {
    pub root: PathBuf,
    counter: u64,
}

impl Scratch {
    pub fn new() -> Scratch {
        Scratch {
            root: scratch_root(),
            counter: 0,
        }
    }

    /// A fresh, empty directory (one per tag: asking again for the same tag empties it).
    pub fn fresh(&mut self, tag: &str) -> PathBuf {
        self.counter += 1;
        let dir = self.root.join(tag);
        let _ = std::fs::remove_dir_all(&dir);
        std::fs::create_dir_all(&dir).expect("cannot create scratch sub-directory");
        dir
    }

    pub fn remove(&self, dir: &Path) {
        let _ = std::fs::remove_dir_all(dir);
    }
}

impl Drop for Scratch {
    fn drop(&mut self) {
        let _ = std::fs::remove_dir_all(&self.root);
    }
}

pub fn clear_dir(dir: &Path) {
    if let Ok(read_dir) = std::fs::read_dir(dir) {
        for entry in read_dir.flatten() {
            let path = entry.path();
            let is_dir = entry
                .file_type()
                .map(|file_type| file_type.is_dir())
                .unwrap_or(false);
            if is_dir {
                let _ = std::fs::remove_dir_all(&path);
            } else {
                let _ = std::fs::remove_file(&path);
            }
        }
    }
}

/// Runs library code, turning a panic into `Err(message)`.
pub fn guarded<T>(f: impl FnOnce() -> T) -> Result<T, String> {
    match catch_unwind(AssertUnwindSafe(f)) {
        Ok(value) => Ok(value),
        Err(payload) => {
            let msg = if let Some(text) = payload.downcast_ref::<&str>() {
                text.to_string()
            } else if let Some(text) = payload.downcast_ref::<String>() {
                text.clone()
            } else {
                "non-string panic payload".to_string()
            };
            Err(msg)
        }
    }
}

/// Silences the default panic message (library panics are oracle inputs, harness panics are
/// reported by the runner itself).
pub fn install_quiet_panic_hook() {
    std::panic::set_hook(Box::new(|info| {
        if std::env::var_os("VERIF_PANIC_TRACE").is_some() {
            eprintln!("[panic] {info}");
        }
        LAST_PANIC_LOCATION.with(|slot| {
            *slot.borrow_mut() = info
                .location()
                .map(|loc| format!("{}:{}", loc.file(), loc.line()));
        });
    }));
}

thread_local! {
    pub static LAST_PANIC_LOCATION: std::cell::RefCell<Option<String>> = std::cell::RefCell::new(None);
}

pub fn last_panic_location() -> Option<String> {
    LAST_PANIC_LOCATION.with(|slot| slot.borrow().clone())
}

pub fn wal_name(number: u64) -> String {
    format!("wal-{number:020}")
}

pub fn wal_number(name: &str) -> Option<u64> {
    if name.len() != 24 || !name.starts_with("wal-") {
        return None;
    }
    if !name.as_bytes()[4..].iter().all(u8::is_ascii_digit) {
        return None;
    }
    name[4..].parse().ok()
}

pub fn crc32_frame(frame_type: u8, payload: &[u8]) -> u32 {
    let mut hasher = crc32fast::Hasher::default();
    hasher.update(&[frame_type]);
    hasher.update(payload);
    hasher.finalize()
}


/// Four bytes `x` such that crc32(prefix ++ x) == target (CRC-32/ISO-HDLC, the one crc32fast computes).
/// Used to craft payloads whose frame header carries a chosen checksum value (content-dependent behaviour).
pub fn forge_crc_suffix(prefix: &[u8], target: u32) -> Option<[u8; 4]> {
    let mut table = [0u32; 256];
    for (idx, slot) in table.iter_mut().enumerate() {
        let mut value = idx as u32;
        for _ in 0..8 {
            value = if value & 1 == 1 { 0xEDB8_8320 ^ (value >> 1) } else { value >> 1 };
        }
        *slot = value;
    }
    let mut hasher = crc32fast::Hasher::default();
    hasher.update(prefix);
    let current = hasher.finalize() ^ 0xFFFF_FFFF;
    let mut reg = target ^ 0xFFFF_FFFF;
    for _ in 0..4 {
        let idx = (0..256usize).find(|idx| table[*idx] >> 24 == reg >> 24)?;
        reg = ((reg ^ table[idx]) << 8) | idx as u32;
    }
    let suffix = (reg ^ current).to_le_bytes();
    let mut check = crc32fast::Hasher::default();
    check.update(prefix);
    check.update(&suffix);
    if check.finalize() == target {
        Some(suffix)
    } else {
        None
    }
}
