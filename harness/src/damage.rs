//! Damage model (DESIGN.md section 8): in-place overwrites, structural damage, crafted frames.

use serde::{Deserialize, Serialize};

use crate::iotrace::{FrameInfo, Image};
use crate::util::{crc32_frame, splitmix, wal_name, wal_number, BLOCK, FRAME_HEADER};

/// A concrete, replayable damage operation.
#[derive(Clone, Debug, Serialize, Deserialize, PartialEq, Eq, Hash)]
pub enum CDamage {
    /// Overwrite bytes in place (file length unchanged; clipped to the file).
    Write { name: String, off: u64, hex: String },
    /// Fill `len` bytes with `byte` (clipped to the file).
    Fill { name: String, off: u64, len: u64, byte: u8 },
    SetLen { name: String, len: u64 },
    Remove { name: String },
    Copy { from: String, to: String },
    SwapFiles { a: String, b: String },
    SwapBlocks { name_a: String, block_a: u32, name_b: String, block_b: u32 },
    /// A stray regular file.
    Stray { name: String, len: u32, seed: u64 },
    Dir { name: String },
    Symlink { name: String, target: String },
}

pub fn to_hex(bytes: &[u8]) -> String {
    let mut out = String::with_capacity(bytes.len() * 2);
    for byte in bytes {
        out.push_str(&format!("{byte:02x}"));
    }
    out
}

pub fn from_hex(text: &str) -> Vec<u8> {
    (0..text.len() / 2)
        .map(|idx| u8::from_str_radix(&text[idx * 2..idx * 2 + 2], 16).unwrap_or(0))
        .collect()
}

/// Directory content beyond WAL files, for structural damage.
#[derive(Clone, Debug, Default, PartialEq, Eq)]
pub struct Extras {
    pub stray: Vec<(String, Vec<u8>)>,
    pub dirs: Vec<String>,
    pub symlinks: Vec<(String, String)>,
}

impl Extras {
    pub fn materialize(&self, dir: &std::path::Path) -> std::io::Result<()> {
        for (name, bytes) in &self.stray {
            std::fs::write(dir.join(name), bytes)?;
        }
        for name in &self.dirs {
            let _ = std::fs::create_dir(dir.join(name));
        }
        for (name, target) in &self.symlinks {
            let _ = std::os::unix::fs::symlink(target, dir.join(name));
        }
        Ok(())
    }
}

/// Applies one damage op. Returns true if it changed anything.
pub fn apply(image: &mut Image, extras: &mut Extras, damage: &CDamage) -> bool {
    match damage {
        CDamage::Write { name, off, hex } => {
            let bytes = from_hex(hex);
            let Some(content) = image.files.get_mut(name) else {
                return false;
            };
            let start = (*off as usize).min(content.len());
            let end = (start + bytes.len()).min(content.len());
            if start == end {
                return false;
            }
            let changed = content[start..end] != bytes[..end - start];
            content[start..end].copy_from_slice(&bytes[..end - start]);
            changed
        }
        CDamage::Fill { name, off, len, byte } => {
            let Some(content) = image.files.get_mut(name) else {
                return false;
            };
            let start = (*off as usize).min(content.len());
            let end = (start + *len as usize).min(content.len());
            let changed = content[start..end].iter().any(|current| current != byte);
            content[start..end].fill(*byte);
            changed
        }
        CDamage::SetLen { name, len } => {
            let Some(content) = image.files.get_mut(name) else {
                return false;
            };
            let changed = content.len() != *len as usize;
            content.resize(*len as usize, 0);
            changed
        }
        CDamage::Remove { name } => image.files.remove(name).is_some(),
        CDamage::Copy { from, to } => {
            let Some(content) = image.files.get(from).cloned() else {
                return false;
            };
            image.files.insert(to.clone(), content);
            true
        }
        CDamage::SwapFiles { a, b } => {
            if a == b || !image.files.contains_key(a) || !image.files.contains_key(b) {
                return false;
            }
            let content_a = image.files.remove(a).unwrap();
            let content_b = image.files.remove(b).unwrap();
            image.files.insert(a.clone(), content_b);
            image.files.insert(b.clone(), content_a);
            true
        }
        CDamage::SwapBlocks { name_a, block_a, name_b, block_b } => {
            let range = |block: u32| (block as usize * BLOCK)..((block as usize + 1) * BLOCK);
            let Some(content_a) = image.files.get(name_a) else {
                return false;
            };
            let Some(content_b) = image.files.get(name_b) else {
                return false;
            };
            if content_a.len() < range(*block_a).end || content_b.len() < range(*block_b).end {
                return false;
            }
            let bytes_a = content_a[range(*block_a)].to_vec();
            let bytes_b = content_b[range(*block_b)].to_vec();
            if bytes_a == bytes_b {
                return false;
            }
            image.files.get_mut(name_a).unwrap()[range(*block_a)].copy_from_slice(&bytes_b);
            image.files.get_mut(name_b).unwrap()[range(*block_b)].copy_from_slice(&bytes_a);
            true
        }
        CDamage::Stray { name, len, seed } => {
            extras
                .stray
                .push((name.clone(), crate::util::fill(*seed, *len as usize, 0)));
            true
        }
        CDamage::Dir { name } => {
            extras.dirs.push(name.clone());
            true
        }
        CDamage::Symlink { name, target } => {
            extras.symlinks.push((name.clone(), target.clone()));
            true
        }
    }
}

/// Frames of the trace that are still present in `image` (their file exists and holds them).
pub fn live_frames(frames: &[FrameInfo], image: &Image) -> Vec<FrameInfo> {
    frames
        .iter()
        .filter(|frame| {
            image
                .files
                .get(&frame.name)
                .map_or(false, |content| content.len() >= frame.off as usize + FRAME_HEADER + frame.payload_len)
        })
        .cloned()
        .collect()
}

/// Written extent of each file: (name, highest written offset).
pub fn written_extent(frames: &[FrameInfo], image: &Image) -> Vec<(String, u64)> {
    let mut out: Vec<(String, u64)> = Vec::new();
    for name in image.files.keys() {
        let end = frames
            .iter()
            .filter(|frame| frame.name == *name)
            .map(|frame| frame.off + (FRAME_HEADER + frame.payload_len) as u64)
            .max()
            .unwrap_or(0);
        out.push((name.clone(), end));
    }
    out
}

#[derive(Clone, Copy, Debug, PartialEq, Eq, Hash, PartialOrd, Ord)]
pub enum Field {
    Crc,
    Len,
    Type,
    Payload,
}

impl Field {
    pub fn name(self) -> &'static str {
        match self {
            Field::Crc => "crc",
            Field::Len => "len",
            Field::Type => "type",
            Field::Payload => "payload",
        }
    }
}

/// A damage confined to the payload or CRC bytes of `frame` (C09 / C12): 1..n bytes altered.
/// `draw` selects the variation. Always changes at least one byte.
pub fn payload_or_crc_damage(frame: &FrameInfo, image: &Image, draw: u64) -> (CDamage, Field) {
    let mut rng = draw;
    let content = &image.files[&frame.name];
    let choose_crc = frame.payload_len == 0 || splitmix(&mut rng) % 4 == 0;
    if choose_crc {
        let idx = splitmix(&mut rng) % 4;
        let off = frame.off + idx;
        let max_len = (4 - idx).max(1);
        let len = 1 + splitmix(&mut rng) % max_len;
        let mut bytes: Vec<u8> = content[off as usize..(off + len) as usize].to_vec();
        for byte in bytes.iter_mut() {
            *byte ^= 1 + (splitmix(&mut rng) % 255) as u8;
        }
        (CDamage::Write { name: frame.name.clone(), off, hex: to_hex(&bytes) }, Field::Crc)
    } else {
        let start = splitmix(&mut rng) % frame.payload_len as u64;
        let room = frame.payload_len as u64 - start;
        let len = match splitmix(&mut rng) % 4 {
            0 => 1,
            1 => 1 + splitmix(&mut rng) % room.min(8),
            2 => 1 + splitmix(&mut rng) % room.min(64),
            _ => 1 + splitmix(&mut rng) % room,
        };
        let off = frame.off + FRAME_HEADER as u64 + start;
        let mut bytes: Vec<u8> = content[off as usize..(off + len) as usize].to_vec();
        match splitmix(&mut rng) % 3 {
            0 => {
                // single bit flip in the first byte, the rest xor-ed
                bytes[0] ^= 1 << (splitmix(&mut rng) % 8);
                for byte in bytes.iter_mut().skip(1) {
                    *byte ^= 1 + (splitmix(&mut rng) % 255) as u8;
                }
            }
            1 => {
                // zero-fill (guaranteed change: flip the first byte if it was already zero everywhere)
                let all_zero = bytes.iter().all(|byte| *byte == 0);
                bytes.fill(0);
                if all_zero {
                    bytes[0] = 0xA5;
                }
            }
            _ => {
                for byte in bytes.iter_mut() {
                    *byte ^= 1 + (splitmix(&mut rng) % 255) as u8;
                }
            }
        }
        (CDamage::Write { name: frame.name.clone(), off, hex: to_hex(&bytes) }, Field::Payload)
    }
}

/// Damage aimed at any field of `frame` (C08 / C10 / C12): header fields included.
pub fn aimed_damage(frame: &FrameInfo, image: &Image, draw: u64) -> (CDamage, Field) {
    let mut rng = draw ^ 0x51ED_270B;
    match splitmix(&mut rng) % 10 {
        0..=2 => {
            // len field
            let current = frame.payload_len as u16;
            let value: u16 = match splitmix(&mut rng) % 8 {
                0 => current.wrapping_add(1),
                1 => current.wrapping_sub(1),
                2 => 0,
                3 => 0xFFFF,
                4 => {
                    // land on the end of the block
                    (BLOCK - (frame.off as usize % BLOCK) - FRAME_HEADER) as u16
                }
                7 => {
                    // overshoot the end of the block by 1..=8 bytes
                    (BLOCK - (frame.off as usize % BLOCK) - FRAME_HEADER) as u16 + 1 + (splitmix(&mut rng) % 8) as u16
                }
                5 => (splitmix(&mut rng) % (current as u64 + 1)) as u16,
                _ => splitmix(&mut rng) as u16,
            };
            let value = if value == current { current ^ 0x0101 } else { value };
            (
                CDamage::Write { name: frame.name.clone(), off: frame.off + 4, hex: to_hex(&value.to_le_bytes()) },
                Field::Len,
            )
        }
        3..=4 => {
            let options = [0u8, 1, 2, 3, 4, 5, 0xFF];
            let mut value = options[(splitmix(&mut rng) % options.len() as u64) as usize];
            if value == frame.frame_type {
                value = (value + 1) % 5;
            }
            (
                CDamage::Write { name: frame.name.clone(), off: frame.off + 6, hex: to_hex(&[value]) },
                Field::Type,
            )
        }
        _ => payload_or_crc_damage(frame, image, splitmix(&mut rng)),
    }
}

/// Damage of the `len` field of `frame` such that, after the CRC mismatch it causes, the reader's cursor lands exactly
/// on the start of a LATER frame of the same block (skipping `skip` whole frames in between): the classic way a
/// single damaged field makes several consecutive entries disappear while everything after them survives.
pub fn resync_len_damage(frame: &FrameInfo, live: &[FrameInfo], skip: usize) -> Option<CDamage> {
    let idx = live.iter().position(|other| other.name == frame.name && other.off == frame.off)?;
    let target = live.get(idx + 1 + skip)?;
    if target.name != frame.name || target.off as usize / BLOCK != frame.off as usize / BLOCK {
        return None;
    }
    let new_len = target.off.checked_sub(frame.off + FRAME_HEADER as u64)?;
    if new_len > u16::MAX as u64 || new_len as usize == frame.payload_len {
        return None;
    }
    Some(CDamage::Write { name: frame.name.clone(), off: frame.off + 4, hex: to_hex(&(new_len as u16).to_le_bytes()) })
}

/// `aimed_damage`, with a bias towards `resync_len_damage` on control entries (create / position / delete / truncate).
pub fn aimed_damage_in_context(frame: &FrameInfo, live: &[FrameInfo], image: &Image, draw: u64) -> (CDamage, Field) {
    let mut rng = draw ^ 0x5E5C;
    let control = matches!(frame.entry_tag, 1 | 2 | 3);
    let odds = if control { 2 } else { 8 };
    if splitmix(&mut rng) % odds == 0 {
        let skip = (splitmix(&mut rng) % 3) as usize;
        if let Some(damage) = resync_len_damage(frame, live, skip) {
            return (damage, Field::Len);
        }
    }
    aimed_damage(frame, image, draw)
}

/// Unaimed in-place damage somewhere in the image (bit flip, random run, zero run, garbage block).
pub fn random_inplace_damage(image: &Image, extents: &[(String, u64)], draw: u64) -> Option<CDamage> {
    let mut rng = draw ^ 0x0DD_BA11;
    if extents.is_empty() {
        return None;
    }
    let (name, written) = &extents[(splitmix(&mut rng) % extents.len() as u64) as usize];
    let file_len = image.files.get(name)?.len() as u64;
    if file_len == 0 {
        return None;
    }
    // mostly inside the written extent (+ a little beyond), sometimes anywhere
    let span = if splitmix(&mut rng) % 8 == 0 { file_len } else { (*written + 64).min(file_len).max(1) };
    let off = splitmix(&mut rng) % span;
    let content = &image.files[name];
    Some(match splitmix(&mut rng) % 7 {
        6 => {
            // a whole block overwritten with one 7-byte pattern repeated: something that LOOKS like a run of empty frame
            // headers (len 0, a valid type byte) but whose checksum bytes are not the CRC of an empty frame of that type
            let block = off / BLOCK as u64;
            let frame_type = 1 + (splitmix(&mut rng) % 4) as u8;
            let valid = crc32_frame(frame_type, &[]).to_le_bytes();
            let mut crc = match splitmix(&mut rng) % 3 {
                0 => [0u8; 4],
                1 => (splitmix(&mut rng) as u32).to_le_bytes(),
                _ => [0xFF; 4],
            };
            if crc == valid {
                crc[0] ^= 1;
            }
            let mut pattern = crc.to_vec();
            pattern.extend_from_slice(&[0, 0, frame_type]);
            let bytes: Vec<u8> = pattern.iter().copied().cycle().take(BLOCK).collect();
            CDamage::Write { name: name.clone(), off: block * BLOCK as u64, hex: to_hex(&bytes) }
        }
        0 | 1 => {
            let byte = content[off as usize] ^ (1 << (splitmix(&mut rng) % 8));
            CDamage::Write { name: name.clone(), off, hex: to_hex(&[byte]) }
        }
        2 | 3 => {
            let len = 1 + splitmix(&mut rng) % 64;
            let bytes: Vec<u8> = (0..len).map(|_| splitmix(&mut rng) as u8).collect();
            CDamage::Write { name: name.clone(), off, hex: to_hex(&bytes) }
        }
        4 => {
            let len = match splitmix(&mut rng) % 3 {
                0 => 1 + splitmix(&mut rng) % 16,
                1 => 1 + splitmix(&mut rng) % 4096,
                _ => 1 + splitmix(&mut rng) % (2 * BLOCK as u64),
            };
            CDamage::Fill { name: name.clone(), off, len, byte: 0 }
        }
        _ => {
            let block = off / BLOCK as u64;
            let seed = splitmix(&mut rng);
            let bytes = crate::util::fill(seed, BLOCK, 0);
            CDamage::Write { name: name.clone(), off: block * BLOCK as u64, hex: to_hex(&bytes) }
        }
    })
}

// ---------------------------------------------------------------------------------------------
// Crafted CRC-valid content

/// Serialises a WAL entry: tag (1 truncate, 2 position, 3 delete, 4 append), position, queue name
/// bytes (not necessarily UTF-8), body.
pub fn craft_entry(tag: u8, position: u64, queue: &[u8], body: &[u8]) -> Vec<u8> {
    let mut out = Vec::with_capacity(11 + queue.len() + body.len());
    out.push(tag);
    out.extend_from_slice(&position.to_le_bytes());
    out.extend_from_slice(&(queue.len() as u16).to_le_bytes());
    out.extend_from_slice(queue);
    out.extend_from_slice(body);
    out
}

/// Body of an append entry: records (position, payload).
pub fn craft_batch(records: &[(u64, Vec<u8>)]) -> Vec<u8> {
    let mut out = Vec::new();
    for (position, payload) in records {
        out.extend_from_slice(&position.to_le_bytes());
        out.extend_from_slice(&(payload.len() as u32).to_le_bytes());
        out.extend_from_slice(payload);
    }
    out
}

/// One frame with a correct CRC.
pub fn craft_frame(frame_type: u8, payload: &[u8]) -> Vec<u8> {
    let mut out = Vec::with_capacity(FRAME_HEADER + payload.len());
    out.extend_from_slice(&crc32_frame(frame_type, payload).to_le_bytes());
    out.extend_from_slice(&(payload.len() as u16).to_le_bytes());
    out.push(frame_type);
    out.extend_from_slice(payload);
    out
}

/// Frames (correct CRCs) carrying `entry`, laid out from in-block offset `cursor` the way the
/// writer does; returns the bytes including padding.
pub fn craft_entry_frames(entry: &[u8], mut cursor: usize) -> Vec<u8> {
    let mut out = Vec::new();
    let mut left = entry;
    let mut first = true;
    loop {
        let mut remaining = BLOCK - cursor % BLOCK;
        if remaining < FRAME_HEADER {
            out.extend(std::iter::repeat(0u8).take(remaining));
            cursor += remaining;
            remaining = BLOCK;
        }
        let take = (remaining - FRAME_HEADER).min(left.len());
        let (chunk, rest) = left.split_at(take);
        let last = rest.is_empty();
        let frame_type = match (first, last) {
            (true, true) => 1,
            (true, false) => 2,
            (false, true) => 4,
            (false, false) => 3,
        };
        let frame = craft_frame(frame_type, chunk);
        cursor += frame.len();
        out.extend_from_slice(&frame);
        left = rest;
        first = false;
        if last {
            return out;
        }
    }
}

pub fn next_wal_name(image: &Image) -> String {
    let max = image.files.keys().filter_map(|name| wal_number(name)).max();
    wal_name(max.map(|number| number.saturating_add(1)).unwrap_or(0))
}

/// A 24-byte, valid UTF-8 file name derived from "wal-<20 digits>" in which the two bytes at `pos`, `pos + 1` are
/// replaced by a two-byte character (so that some byte offset is not a character boundary).
pub fn multibyte_wal_like_name(pos: usize, number: u64) -> String {
    let template = crate::util::wal_name(number);
    let pos = pos % 23;
    let mut out = String::new();
    out.push_str(&template[..pos]);
    out.push('\u{e9}');
    out.push_str(&template[pos + 2..]);
    out
}
