//! KNOWN_FINDINGS.txt: `known:` lines suppress a violation with exactly that (property,
//! signature); `fixed:` lines suppress nothing. Never written at run time.

use std::path::Path;

#[derive(Clone, Debug)]
pub struct Known {
    pub property: String,
    pub signature: String,
    pub text: String,
}

#[derive(Clone, Debug, Default)]
pub struct Findings {
    pub known: Vec<Known>,
    pub fixed: Vec<String>,
}

impl Findings {
    pub fn load(path: &Path) -> Findings {
        let mut findings = Findings::default();
        let Ok(content) = std::fs::read_to_string(path) else {
            return findings;
        };
        for line in content.lines() {
            let line = line.trim();
            if let Some(rest) = line.strip_prefix("known:") {
                let mut property = String::new();
                let mut signature = String::new();
                let mut words = Vec::new();
                for word in rest.split_whitespace() {
                    if let Some(value) = word.strip_prefix("property=") {
                        property = value.to_string();
                    } else if let Some(value) = word.strip_prefix("signature=") {
                        signature = value.to_string();
                    } else {
                        words.push(word);
                    }
                }
                if !property.is_empty() && !signature.is_empty() {
                    findings.known.push(Known {
                        property,
                        signature,
                        text: words.join(" "),
                    });
                }
            } else if let Some(rest) = line.strip_prefix("fixed:") {
                findings.fixed.push(rest.trim().to_string());
            }
        }
        findings
    }

    pub fn is_known(&self, property: &str, signature: &str) -> Option<&Known> {
        self.known
            .iter()
            .find(|known| known.property == property && known.signature == signature)
    }
}
