//! Crash-point enumeration over a recorded effect list (DESIGN.md section 7).

use crate::iotrace::{Effect, FrameInfo, Image};
use crate::util::{pick32, FRAME_HEADER};

#[derive(Clone, Copy, Debug, PartialEq, Eq, Hash)]
pub struct CrashPoint {
    /// Effects `[0, k)` are applied in full...
    pub k: usize,
    /// ...plus the first `b` bytes of effect `k` when it is an `OsWrite` (0 = nothing of it).
    pub b: usize,
}

#[derive(Clone, Copy, Debug, PartialEq, Eq, Hash, PartialOrd, Ord)]
pub enum CrashClass {
    /// No API call in flight.
    BetweenOps,
    /// Inside a call, at an effect boundary that is not special.
    InsideOpBoundary,
    /// Inside a frame header.
    InsideHeader,
    /// Inside a frame payload.
    InsidePayload,
    /// Exactly between two frames of the same multi-frame entry.
    BetweenFramesOfEntry,
    /// Exactly between two frames (different entries of the same call, e.g. GC position entries).
    BetweenEntriesOfCall,
    /// Between the steps of a roll-over (fsync / dirsync / create / set_len).
    InsideRollover,
    /// Between GC steps (position entries -> fsync -> unlinks).
    InsideGc,
    /// Inside `open` (recovery's own effects).
    InsideOpen,
}

impl CrashClass {
    pub fn name(self) -> &'static str {
        match self {
            CrashClass::BetweenOps => "crash:between-ops",
            CrashClass::InsideOpBoundary => "crash:inside-op-at-effect-boundary",
            CrashClass::InsideHeader => "crash:inside-frame-header",
            CrashClass::InsidePayload => "crash:inside-frame-payload",
            CrashClass::BetweenFramesOfEntry => "crash:between-frames-of-one-entry",
            CrashClass::BetweenEntriesOfCall => "crash:between-entries-of-one-call",
            CrashClass::InsideRollover => "crash:inside-rollover",
            CrashClass::InsideGc => "crash:inside-gc",
            CrashClass::InsideOpen => "crash:inside-open",
        }
    }

    pub fn strictly_inside_op(self) -> bool {
        self != CrashClass::BetweenOps
    }
}

pub struct CrashCtx<'a> {
    pub point: CrashPoint,
    /// Op in flight at the crash (its OpBegin was passed, its OpEnd was not).
    pub inflight: Option<usize>,
    /// Last op whose OpEnd was passed (`None` before the first one; `usize::MAX` is the initial open).
    pub last_completed: Option<usize>,
    pub class: CrashClass,
    pub image: &'a Image,
}

fn state_changing(effect: &Effect) -> bool {
    matches!(
        effect,
        Effect::Create { .. } | Effect::SetLen { .. } | Effect::OsWrite { .. } | Effect::Unlink { .. }
    )
}

/// Classification of a byte cut at file offset `off` of `name`.
fn classify_cut(frames: &[FrameInfo], name: &str, off: u64) -> Option<CrashClass> {
    // frames of a trace never overlap; linear scan from the back is fine for small traces, use
    // binary search on (name, off) since frames are pushed in write order per file.
    let mut found: Option<&FrameInfo> = None;
    for frame in frames.iter().rev() {
        // strictly before `off`: a cut exactly at a frame start is classified by the frame ending there
        if frame.name == name && frame.off < off {
            found = Some(frame);
            break;
        }
    }
    let frame = found?;
    let rel = off - frame.off;
    let total = (FRAME_HEADER + frame.payload_len) as u64;
    if rel == 0 {
        return None;
    }
    if rel < FRAME_HEADER as u64 {
        Some(CrashClass::InsideHeader)
    } else if rel < total {
        Some(CrashClass::InsidePayload)
    } else if rel == total {
        // boundary right after this frame
        if frame.frame_type == 2 || frame.frame_type == 3 {
            Some(CrashClass::BetweenFramesOfEntry)
        } else {
            Some(CrashClass::BetweenEntriesOfCall)
        }
    } else {
        None
    }
}

#[derive(Clone, Debug)]
pub struct Selection {
    /// Enumerate every byte cut when the trace wrote at most this many bytes.
    pub exhaustive_below: usize,
    /// Generated fractions for additional cuts inside each write.
    pub words: Vec<u32>,
    /// Generated cuts per OsWrite.
    pub generated_cuts: usize,
    /// Only this crash point (replay).
    pub only: Option<CrashPoint>,
    /// Restrict to effects in this range (crash points k in [lo, hi]).
    pub range: Option<(usize, usize)>,
}

impl Selection {
    pub fn standard(words: &[u32]) -> Selection {
        Selection {
            exhaustive_below: 4_000,
            words: words.to_vec(),
            generated_cuts: 2,
            only: None,
            range: None,
        }
    }
}

/// Byte cuts to try inside an OsWrite of `len` bytes starting at file offset `off`.
fn cuts_for_write(
    frames: &[FrameInfo],
    name: &str,
    off: u64,
    len: usize,
    exhaustive: bool,
    selection: &Selection,
    salt: usize,
) -> Vec<usize> {
    if len <= 1 {
        return Vec::new();
    }
    if exhaustive {
        return (1..len).collect();
    }
    let mut cuts: Vec<usize> = vec![1, 3, 6, 7, 8, len - 1];
    // frame boundaries inside this write
    for frame in frames {
        if frame.name != name {
            continue;
        }
        let start = frame.off;
        if start > off && start < off + len as u64 {
            let rel = (start - off) as usize;
            cuts.extend_from_slice(&[rel, rel + 3, rel + 7, rel + 8]);
        }
    }
    if !selection.words.is_empty() {
        for idx in 0..selection.generated_cuts {
            let word = selection.words[(salt * 7 + idx * 3) % selection.words.len()];
            let mixed = (word as u64).wrapping_mul(0x9E37_79B9).wrapping_add((salt as u64) << 7 ^ idx as u64) as u32;
            cuts.push(1 + pick32(mixed, (len - 1) as u64) as usize);
        }
    }
    cuts.retain(|cut| *cut >= 1 && *cut < len);
    cuts.sort_unstable();
    cuts.dedup();
    cuts
}

/// Calls `visit` for every selected crash point, in trace order, with the image the crash leaves
/// (process-crash model: effects reach the OS in program order).
pub fn for_each_crash_point<E>(
    base: &Image,
    effects: &[Effect],
    frames: &[FrameInfo],
    selection: &Selection,
    mut visit: impl FnMut(&CrashCtx) -> Result<(), E>,
) -> Result<u64, E> {
    let total_written: usize = effects
        .iter()
        .map(|effect| match effect {
            Effect::OsWrite { data, .. } => data.len(),
            _ => 0,
        })
        .sum();
    let exhaustive = total_written <= selection.exhaustive_below;
    let mut image = base.clone();
    let mut inflight: Option<usize> = None;
    let mut last_completed: Option<usize> = None;
    let mut visited = 0u64;
    // context for classification
    let mut op_saw_unlink_or_gc = false;
    let mut op_in_rollover = false;
    let in_range = |k: usize| match selection.range {
        Some((lo, hi)) => k >= lo && k <= hi,
        None => true,
    };
    for (k, effect) in effects.iter().enumerate() {
        // crash point (k, 0): right before effect k — only meaningful once per distinct image,
        // i.e. when effect k itself changes the image or is the first / an OpBegin boundary.
        let boundary_worthwhile = match effect {
            Effect::OpBegin { .. } => true,
            other => state_changing(other),
        };
        let boundary_selected = match selection.only {
            Some(point) => point.k == k && point.b == 0,
            None => boundary_worthwhile && in_range(k),
        };
        if boundary_selected {
            let class = match inflight {
                None => CrashClass::BetweenOps,
                Some(_) => {
                    if op_in_rollover {
                        CrashClass::InsideRollover
                    } else if op_saw_unlink_or_gc || matches!(effect, Effect::Unlink { .. }) {
                        CrashClass::InsideGc
                    } else {
                        CrashClass::InsideOpBoundary
                    }
                }
            };
            // an OpBegin boundary with no op in flight is "between ops"
            let class = if matches!(effect, Effect::OpBegin { .. }) {
                CrashClass::BetweenOps
            } else {
                class
            };
            visit(&CrashCtx {
                point: CrashPoint { k, b: 0 },
                inflight: if matches!(effect, Effect::OpBegin { .. }) { None } else { inflight },
                last_completed,
                class,
                image: &image,
            })?;
            visited += 1;
        }
        // byte cuts inside an OsWrite
        if let Effect::OsWrite { name, off, data } = effect {
            let cuts: Vec<usize> = match selection.only {
                Some(point) => {
                    if point.k == k && point.b > 0 && point.b < data.len() {
                        vec![point.b]
                    } else {
                        Vec::new()
                    }
                }
                None => {
                    if in_range(k) {
                        cuts_for_write(frames, name, *off, data.len(), exhaustive, selection, k)
                    } else {
                        Vec::new()
                    }
                }
            };
            if !cuts.is_empty() {
                let mut partial = image.clone();
                let mut written = 0usize;
                for cut in cuts {
                    partial.write(name, *off + written as u64, &data[written..cut]);
                    written = cut;
                    let class = classify_cut(frames, name, *off + cut as u64)
                        .unwrap_or(CrashClass::InsideOpBoundary);
                    visit(&CrashCtx {
                        point: CrashPoint { k, b: cut },
                        inflight,
                        last_completed,
                        class,
                        image: &partial,
                    })?;
                    visited += 1;
                }
            }
        }
        // apply effect k
        match effect {
            Effect::OpBegin { op } => {
                inflight = Some(*op);
                op_saw_unlink_or_gc = false;
                op_in_rollover = false;
            }
            Effect::OpEnd { op } => {
                inflight = None;
                last_completed = Some(*op);
            }
            Effect::Fsync { .. } | Effect::DirSync => {}
            Effect::Create { .. } => op_in_rollover = true,
            Effect::SetLen { .. } => op_in_rollover = false,
            Effect::Unlink { .. } => op_saw_unlink_or_gc = true,
            Effect::OsWrite { .. } | Effect::Dropped => {}
        }
        image.apply(effect);
    }
    // crash after everything
    let end_selected = match selection.only {
        Some(point) => point.k == effects.len(),
        None => in_range(effects.len()),
    };
    if end_selected {
        visit(&CrashCtx {
            point: CrashPoint { k: effects.len(), b: 0 },
            inflight,
            last_completed,
            class: CrashClass::BetweenOps,
            image: &image,
        })?;
        visited += 1;
    }
    Ok(visited)
}

// ---------------------------------------------------------------------------------------------
// Power-loss model

use std::collections::{BTreeMap, BTreeSet};

#[derive(Clone, Debug)]
enum Unsynced {
    SetLen(u64),
    Write { off: u64, data: Vec<u8> },
}

#[derive(Clone, Debug)]
enum NsOp {
    Create(String),
    Unlink(String),
}

/// What stable storage is guaranteed to hold (and what it may additionally hold) after the
/// effects applied so far.
#[derive(Clone, Debug, Default)]
pub struct PowerState {
    /// Content of each file as of its last fsync.
    synced: BTreeMap<String, Vec<u8>>,
    /// Per file: size changes and writes since its last fsync, in program order.
    unsynced: BTreeMap<String, Vec<Unsynced>>,
    /// Directory entries as of the last directory fsync.
    durable_names: BTreeSet<String>,
    /// Name-space operations since the last directory fsync, in program order.
    pending_ns: Vec<NsOp>,
}

#[derive(Clone, Copy, Debug, PartialEq, Eq, Hash)]
pub enum PowerVariant {
    /// Every unsynced byte lost, every unlink applied, un-dir-synced creations absent.
    AdversarialAbsent,
    /// Every unsynced byte lost, every unlink applied, un-dir-synced creations present (with
    /// whatever of their content was fsynced: usually empty).
    AdversarialPresent,
    /// Per file a generated prefix of the unsynced writes survives; a generated program-order prefix of
    /// the un-dir-synced name-space operations is applied.
    Mixed(u64),
}

impl PowerState {
    pub fn apply(&mut self, effect: &Effect) {
        match effect {
            Effect::Create { name } => {
                self.pending_ns.push(NsOp::Create(name.clone()));
                self.synced.remove(name);
                self.unsynced.insert(name.clone(), Vec::new());
            }
            Effect::SetLen { name, len } => {
                self.unsynced
                    .entry(name.clone())
                    .or_default()
                    .push(Unsynced::SetLen(*len));
            }
            Effect::OsWrite { name, off, data } => {
                self.unsynced
                    .entry(name.clone())
                    .or_default()
                    .push(Unsynced::Write {
                        off: *off,
                        data: data.clone(),
                    });
            }
            Effect::Fsync { name } => {
                let mut content = self.synced.remove(name).unwrap_or_default();
                for op in self.unsynced.remove(name).unwrap_or_default() {
                    apply_unsynced(&mut content, &op, usize::MAX);
                }
                self.synced.insert(name.clone(), content);
            }
            Effect::DirSync => {
                for op in std::mem::take(&mut self.pending_ns) {
                    match op {
                        NsOp::Create(name) => {
                            self.durable_names.insert(name);
                        }
                        NsOp::Unlink(name) => {
                            self.durable_names.remove(&name);
                        }
                    }
                }
            }
            Effect::Unlink { name } => self.pending_ns.push(NsOp::Unlink(name.clone())),
            Effect::OpBegin { .. } | Effect::OpEnd { .. } | Effect::Dropped => {}
        }
    }

    pub fn has_unsynced(&self) -> bool {
        self.unsynced.values().any(|ops| !ops.is_empty()) || !self.pending_ns.is_empty()
    }

    pub fn pending_unlinks(&self) -> usize {
        self.pending_ns
            .iter()
            .filter(|op| matches!(op, NsOp::Unlink(_)))
            .count()
    }

    pub fn image(&self, variant: PowerVariant) -> Image {
        let mut names = self.durable_names.clone();
        let mut rng = match variant {
            PowerVariant::Mixed(seed) => seed | 1,
            _ => 1,
        };
        match variant {
            PowerVariant::AdversarialAbsent | PowerVariant::AdversarialPresent => {
                for op in &self.pending_ns {
                    match op {
                        NsOp::Create(name) => {
                            if variant == PowerVariant::AdversarialPresent {
                                names.insert(name.clone());
                            }
                        }
                        NsOp::Unlink(name) => {
                            names.remove(name);
                        }
                    }
                }
            }
            PowerVariant::Mixed(_) => {
                let keep = (crate::util::splitmix(&mut rng) % (self.pending_ns.len() as u64 + 1)) as usize;
                for op in &self.pending_ns[..keep] {
                    match op {
                        NsOp::Create(name) => {
                            names.insert(name.clone());
                        }
                        NsOp::Unlink(name) => {
                            names.remove(name);
                        }
                    }
                }
            }
        }
        let mut image = Image::default();
        for name in names {
            let mut content = self.synced.get(&name).cloned().unwrap_or_default();
            if let PowerVariant::Mixed(_) = variant {
                if let Some(ops) = self.unsynced.get(&name) {
                    if !ops.is_empty() {
                        let draw = crate::util::splitmix(&mut rng);
                        // number of whole ops kept, then a byte prefix of the next one
                        let keep = (draw % (ops.len() as u64 + 1)) as usize;
                        for op in &ops[..keep] {
                            apply_unsynced(&mut content, op, usize::MAX);
                        }
                        if keep < ops.len() {
                            if let Unsynced::Write { data, .. } = &ops[keep] {
                                let partial = ((draw >> 20) % (data.len() as u64 + 1)) as usize;
                                apply_unsynced(&mut content, &ops[keep], partial);
                            }
                        }
                    }
                }
            }
            image.files.insert(name, content);
        }
        image
    }
}

fn apply_unsynced(content: &mut Vec<u8>, op: &Unsynced, max_bytes: usize) {
    match op {
        Unsynced::SetLen(len) => content.resize(*len as usize, 0),
        Unsynced::Write { off, data } => {
            let take = data.len().min(max_bytes);
            if take == 0 {
                return;
            }
            let end = *off as usize + take;
            if content.len() < end {
                content.resize(end, 0);
            }
            content[*off as usize..end].copy_from_slice(&data[..take]);
        }
    }
}
