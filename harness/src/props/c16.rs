//! C16 — memory accounting tracks retained data and is released by truncation.

use proptest::strategy::BoxedStrategy;
use serde_json::json;

use crate::case::{Case, CaseError, Env, Tier};
use crate::exec::Exec;
use crate::model::Outcome;
use crate::ops::{COp, GenCfg, Policy};
use crate::runner::Property;
use crate::util::hash64;

pub struct C16;

const PER_RECORD_SLACK: usize = 64;

fn gen_cfg(tier: Tier) -> GenCfg {
    let mut cfg = super::c05::gen_cfg(tier);
    cfg.w_truncate = 34;
    cfg.w_tr_last = 34;
    cfg.w_delete = 5;
    cfg.w_len.fileish = 8;
    cfg.w_special_names = 3;
    cfg
}

/// (queue-name bytes, retained payload bytes, retained records) as the real log shows them through its read API.
fn totals(log: &mrecordlog::MultiRecordLog) -> Result<(usize, usize, usize), CaseError> {
    let result = crate::util::guarded(|| {
        let mut names = 0usize;
        let mut data = 0usize;
        let mut records = 0usize;
        let queue_names: Vec<String> = log.list_queues().map(|name| name.to_string()).collect();
        for name in &queue_names {
            names += name.len();
            if let Ok(iter) = log.range(name, ..) {
                for record in iter {
                    data += record.payload.len();
                    records += 1;
                }
            }
        }
        (names, data, records)
    });
    result.map_err(|_| CaseError::Skip("live-state-unobservable".to_string()))
}

impl Property for C16 {
    fn id(&self) -> &'static str {
        "C16"
    }

    fn rule(&self) -> String {
        "generated histories of appends / truncations / deletions / restarts of any sizes; after EVERY call, with \
         N = sum of queue-name bytes, D = retained payload bytes, R = retained records (all measured through the log's \
         own read API: list_queues + range(..)): N + D <= memory_used_bytes <= N + D + 64*R, memory_used_bytes <= memory_allocated_bytes; a \
         truncate evicting e records of d bytes lowers memory_used_bytes by >= d and <= d + 64*e; when every queue \
         is empty memory_used_bytes == N. A fixed large-queue campaign runs the same audit on one queue holding 9..14 MiB in \
         ~1 MiB records through partial truncations. evaluations = calls checked. non-trivial = a truncation evicting >= 1 \
         record, or the all-empty baseline reached after >= 64 KiB had been retained; distinct = hash(op index, \
         concrete history)."
            .to_string()
    }

    fn assumptions(&self) -> Vec<String> {
        vec!["'small constant per retained record' is taken to be <= 64 bytes (the implementation uses 24)".to_string()]
    }

    fn cases(&self, tier: Tier) -> u32 {
        match tier {
            Tier::Quick => 40_000,
            Tier::Thorough => 1_000_000,
        }
    }

    fn strategy(&self, tier: Tier) -> BoxedStrategy<Case> {
        super::case_strategy(&gen_cfg(tier), vec![Policy::DEFAULT, Policy::DoNothing], 1)
    }

    /// Large-queue campaign (deterministic, sharded): one queue holding 9..14 MiB in records of about 1 MiB (lengths not
    /// multiples of anything), next to a small one; partial truncations at several positions, appends in between, then
    /// emptied. Every call goes through the same audit as the generated histories (sizes the generator never reaches).
    fn fixed_work(&self, env: &mut Env, shard: u32, shards: u32) -> Result<(), CaseError> {
        use crate::ops::{Pay, QName};
        let variants: u32 = if env.tier == Tier::Quick { 4 } else { 32 };
        for variant in 0..variants {
            if variant % shards != shard {
                continue;
            }
            let mut rng = 0xB16_u64 ^ ((variant as u64) << 7);
            let big = QName::plain("big");
            let small = QName::plain("small");
            let mut ops = vec![COp::Create { q: big.clone() }, COp::Create { q: small.clone() }];
            ops.push(COp::Append { q: small.clone(), pos: None, batch: vec![Pay { len: 100, seed: 1, style: 0 }, Pay { len: 3000, seed: 2, style: 0 }] });
            let count = 9 + crate::util::splitmix(&mut rng) % 5;
            for idx in 0..count {
                let len = 1_000_000 + (crate::util::splitmix(&mut rng) % 97_003) as u32;
                if idx % 4 == 3 {
                    ops.push(COp::Append { q: big.clone(), pos: None, batch: vec![Pay { len: len / 2, seed: idx, style: 0 }, Pay { len: len / 2 + 1, seed: idx + 100, style: 0 }] });
                } else {
                    ops.push(COp::Append { q: big.clone(), pos: None, batch: vec![Pay { len, seed: idx, style: 0 }] });
                }
            }
            // partial truncations (positions generated; the queue holds count + count/4 records), appends in between
            let records = count + count / 4;
            let mut cut = crate::util::splitmix(&mut rng) % 2;
            while cut + 1 < records {
                ops.push(COp::Truncate { q: big.clone(), pos: cut });
                if cut % 2 == 0 {
                    ops.push(COp::Append { q: big.clone(), pos: None, batch: vec![Pay { len: 50_000 + (crate::util::splitmix(&mut rng) % 4099) as u32, seed: cut, style: 0 }] });
                }
                cut += 1 + crate::util::splitmix(&mut rng) % 3;
            }
            ops.push(COp::Truncate { q: small.clone(), pos: 0 });
            ops.push(COp::Truncate { q: big.clone(), pos: records + 40 });
            ops.push(COp::Truncate { q: small.clone(), pos: 1 });
            let case = Case { policy: Policy::DoNothing, ops: ops.into_iter().map(crate::ops::SOp::Lit).collect(), cont: Vec::new(), words: Vec::new(), extra: None };
            self.run(&case, env)?;
            env.class("large-queue-campaign-history");
        }
        Ok(())
    }

    fn run(&self, case: &Case, env: &mut Env) -> Result<(), CaseError> {
        let dir = env.scratch.fresh("c16");
        let mut exec = Exec::new(&dir, case.policy)?;
        let mut peak_data = 0usize;
        for sop in &case.ops {
            let cop = exec.resolve(sop);
            let (_, data_before, _) = totals(exec.driver.log.as_ref().unwrap())?;
            let used_before = exec.driver.log.as_ref().unwrap().resource_usage().memory_used_bytes;
            let step = exec.step_concrete(cop)?;
            exec.usable_or_skip(&step)?;
            env.evals(1);
            let usage = exec.driver.log.as_ref().unwrap().resource_usage();
            let (names, data, records) = totals(exec.driver.log.as_ref().unwrap())?;
            peak_data = peak_data.max(data);
            let used = usage.memory_used_bytes;
            let fail = |msg: String, signature: &str| Err(exec.failure(
                format!("after op #{} {}: {msg}", step.idx, step.cop.short()), signature, json!({})));
            if used < names + data {
                return fail(format!("memory_used_bytes = {used} < names {names} + retained payload {data}"), "mem-used-too-small");
            }
            if used > names + data + PER_RECORD_SLACK * records {
                return fail(format!("memory_used_bytes = {used} > names {names} + payload {data} + 64*{records} records"), "mem-used-too-large");
            }
            if used > usage.memory_allocated_bytes {
                return fail(format!("memory_used_bytes = {used} > memory_allocated_bytes = {}", usage.memory_allocated_bytes), "mem-used-gt-allocated");
            }
            if records == 0 && used != names {
                return fail(format!("every queue is empty but memory_used_bytes = {used} != names-only baseline {names}"), "mem-baseline");
            }
            let mut nontrivial = false;
            if let (COp::Truncate { .. }, Outcome::Truncated { evicted }) = (&step.cop, &step.real.outcome) {
                let freed = data_before.saturating_sub(data);
                let drop = used_before as i64 - used as i64;
                if drop < freed as i64 || drop > (freed + PER_RECORD_SLACK * evicted) as i64 {
                    return fail(format!(
                        "truncate evicted {evicted} records / {freed} bytes but memory_used_bytes went from {used_before} to {used}"), "mem-truncate-delta");
                }
                if *evicted > 0 {
                    env.class("truncate-evicting");
                    nontrivial = true;
                }
            }
            if records == 0 && peak_data >= 64 * 1024 {
                env.class("all-empty-after-64KiB");
                nontrivial = true;
                peak_data = 0;
            }
            if nontrivial {
                env.nontrivial(hash64(&(step.idx, &exec.cops)));
                env.sample(|| json!({"call": step.cop.short(), "memory_used_bytes": used, "memory_allocated_bytes": usage.memory_allocated_bytes,
                    "names": names, "payload": data, "records": records}));
            }
        }
        exec.driver.close()?;
        env.scratch.remove(&dir);
        Ok(())
    }
}
