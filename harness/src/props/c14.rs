//! C14 — the persist policy never changes logical behaviour (differential).

use proptest::strategy::BoxedStrategy;
use serde_json::json;

use crate::case::{ops_sample, Case, CaseError, Env, Tier};
use crate::exec::Exec;
use crate::iotrace::Effect;
use crate::model::{diff_states, Outcome, State};
use crate::ops::{COp, GenCfg, Policy, SOp};
use crate::runner::Property;
use crate::util::hash64;

pub struct C14;

fn gen_cfg(tier: Tier) -> GenCfg {
    let mut cfg = super::c01::gen_cfg(tier);
    cfg.max_ops = if tier == Tier::Quick { 40 } else { 100 };
    cfg.restart_policies = vec![];
    cfg.w_persist = 6;
    cfg.w_restart = 5;
    cfg
}

impl Property for C14 {
    fn id(&self) -> &'static str {
        "C14"
    }

    fn rule(&self) -> String {
        "differential: one generated history (with and without explicit persist calls, with restarts) is resolved \
         once and then executed in lock-step under all 9 policies {DoNothing, OnDelay(0 | 1us | 1h) x (Flush | \
         FlushAndFsync), Always(Flush), Always(FlushAndFsync)}; after every call the outcome (position, eviction \
         count, error variant, wal_bytes_written) and the full observable state of each run must equal those of the \
         reference run (Always(Flush)); after a final drop + open likewise (purely differential: no model involved). \
         evaluations = (policy, call) pairs compared. non-trivial = history with >= 1 roll-over and >= 1 file unlink; \
         distinct = hash of the concrete op list."
            .to_string()
    }

    fn assumptions(&self) -> Vec<String> {
        vec!["OnDelay is exercised at always-due, 1 us and never-due intervals; the wall clock itself is not controlled".to_string()]
    }

    fn cases(&self, tier: Tier) -> u32 {
        match tier {
            Tier::Quick => 5_000,
            Tier::Thorough => 40_000,
        }
    }

    fn strategy(&self, tier: Tier) -> BoxedStrategy<Case> {
        super::case_strategy(&gen_cfg(tier), vec![Policy::DEFAULT], 1)
    }

    fn run(&self, case: &Case, env: &mut Env) -> Result<(), CaseError> {
        // reference run
        let dir = env.scratch.fresh("c14-ref");
        let mut exec = Exec::new(&dir, Policy::DEFAULT)?;
        let mut ops = case.ops.clone();
        ops.push(SOp::Restart { policy: None });
        let mut ref_outcomes: Vec<(Outcome, u64)> = Vec::new();
        let mut ref_states: Vec<State> = Vec::new();
        let mut rollovers = 0u64;
        let mut unlinks = 0u64;
        for sop in &ops {
            let step = exec.step(sop)?;
            exec.usable_or_skip(&step)?;
            for effect in &exec.effects()[step.effects.clone()] {
                match effect {
                    Effect::Create { .. } => rollovers += 1,
                    Effect::Unlink { .. } => unlinks += 1,
                    _ => {}
                }
            }
            let state = exec.driver.observe().map_err(|msg| {
                exec.failure(format!("reference run: {msg}"), "observe-failed", json!({}))
            })?;
            ref_outcomes.push((step.real.outcome.clone(), step.real.wal_bytes));
            ref_states.push(state);
        }
        exec.driver.close()?;
        let cops: Vec<COp> = exec.cops.clone();
        for policy in Policy::ALL {
            if policy == Policy::DEFAULT {
                continue;
            }
            let other_dir = env.scratch.fresh("c14-other");
            let mut other = Exec::new(&other_dir, policy)?;
            for (idx, cop) in cops.iter().enumerate() {
                let step = other.step_concrete(cop.clone())?;
                env.evals(1);
                if (step.real.outcome.clone(), step.real.wal_bytes) != ref_outcomes[idx] {
                    return Err(exec.failure(
                        format!(
                            "op #{idx} {}: under {policy:?} the call returned {:?} (wal bytes {}), under Always(Flush) {:?} (wal bytes {})",
                            cop.short(), step.real.outcome, step.real.wal_bytes, ref_outcomes[idx].0, ref_outcomes[idx].1
                        ),
                        "policy-outcome-differs",
                        json!({"policy": policy}),
                    ));
                }
                let state = other.driver.observe().map_err(|msg| {
                    exec.failure(format!("run under {policy:?}: {msg}"), "observe-failed", json!({"policy": policy}))
                })?;
                if let Some(diff) = diff_states(&ref_states[idx], &state) {
                    return Err(exec.failure(
                        format!("after op #{idx} {}: state under {policy:?} differs from state under Always(Flush): {diff}", cop.short()),
                        "policy-state-differs",
                        json!({"policy": policy}),
                    ));
                }
            }
            other.driver.close()?;
            env.scratch.remove(&other_dir);
        }
        env.class_n("rollovers", rollovers);
        env.class_n("unlinks", unlinks);
        if rollovers >= 1 && unlinks >= 1 {
            env.nontrivial(hash64(&cops));
            env.sample(|| json!({"ops": ops_sample(&cops), "rollovers": rollovers, "unlinks": unlinks, "policies": 9}));
        }
        env.scratch.remove(&dir);
        Ok(())
    }
}
