//! C14 — the persist policy never changes logical behaviour (differential).

use proptest::strategy::BoxedStrategy;
use serde_json::json;

use crate::case::{ops_sample, Case, CaseError, Env, Tier};
use crate::exec::Exec;
use crate::iotrace::Effect;
use crate::model::{diff_states, Outcome, State};
use crate::ops::{COp, GenCfg, Policy, SOp};
use crate::runner::Property;
use crate::util::hash64;

pub struct C14;

fn gen_cfg(tier: Tier) -> GenCfg {
    let mut cfg = super::c01::gen_cfg(tier);
    cfg.max_ops = if tier == Tier::Quick { 40 } else { 100 };
    cfg.restart_policies = vec![];
    cfg.w_persist = 6;
    cfg.w_restart = 5;
    cfg
}

impl Property for C14 {
    fn id(&self) -> &'static str {
        "C14"
    }

    fn rule(&self) -> String {
        "differential: one generated history (with and without explicit persist calls, with restarts) is resolved \
         once and then executed in lock-step under all 9 policies {DoNothing, OnDelay(0 | 1us | 1h) x (Flush | \
         FlushAndFsync), Always(Flush), Always(FlushAndFsync)}; after every call the outcome (position, eviction \
         count, error variant), the full observable state and disk_used_bytes of each run must equal those of the \
         reference run (Always(Flush); a second run under that same policy must agree with the first, otherwise the case is \
         skipped as non-deterministic); after a final drop + open likewise (purely differential: no model involved). \
         evaluations = (policy, call) pairs compared. non-trivial = history with >= 1 roll-over and >= 1 file unlink; \
         distinct = hash of the concrete op list."
            .to_string()
    }

    fn assumptions(&self) -> Vec<String> {
        vec!["OnDelay is exercised at always-due, 1 us and never-due intervals; the wall clock itself is not controlled".to_string()]
    }

    fn cases(&self, tier: Tier) -> u32 {
        match tier {
            Tier::Quick => 5_000,
            Tier::Thorough => 150_000,
        }
    }

    fn strategy(&self, tier: Tier) -> BoxedStrategy<Case> {
        super::case_strategy(&gen_cfg(tier), vec![Policy::DEFAULT], 1)
    }

    fn run(&self, case: &Case, env: &mut Env) -> Result<(), CaseError> {
        // reference run (resolves the generated selectors into concrete calls)
        let dir = env.scratch.fresh("c14-ref");
        let mut exec = Exec::new(&dir, Policy::DEFAULT)?;
        let mut ops = case.ops.clone();
        ops.push(SOp::Restart { policy: None });
        // per call: (outcome, observable state, disk_used_bytes)
        let mut reference: Vec<(Outcome, State, usize)> = Vec::new();
        let mut rollovers = 0u64;
        let mut unlinks = 0u64;
        for sop in &ops {
            let step = exec.step(sop)?;
            exec.usable_or_skip(&step)?;
            for effect in &exec.effects()[step.effects.clone()] {
                match effect {
                    Effect::Create { .. } => rollovers += 1,
                    Effect::Unlink { .. } => unlinks += 1,
                    _ => {}
                }
            }
            let state = exec.driver.observe().map_err(|_| CaseError::Skip("live-state-unobservable".to_string()))?;
            let disk = exec.driver.log.as_ref().unwrap().resource_usage().disk_used_bytes;
            reference.push((step.real.outcome.clone(), state, disk));
        }
        exec.driver.close()?;
        let cops: Vec<COp> = exec.cops.clone();
        // The same policy a second time: if two runs under ONE policy already differ, the behaviour is not a function
        // of the call sequence (e.g. it depends on hash-map iteration order) and nothing can be attributed to the policy.
        let mut policies: Vec<Policy> = vec![Policy::DEFAULT];
        policies.extend(Policy::ALL.iter().copied().filter(|policy| *policy != Policy::DEFAULT));
        for (round, policy) in policies.into_iter().enumerate() {
            let other_dir = env.scratch.fresh("c14-other");
            let mut other = Exec::new(&other_dir, policy)?;
            for (idx, cop) in cops.iter().enumerate() {
                let step = other.step_concrete(cop.clone())?;
                env.evals(1);
                let state = other.driver.observe();
                let disk = other.driver.log.as_ref().map(|log| log.resource_usage().disk_used_bytes).unwrap_or(0);
                let (ref_outcome, ref_state, ref_disk) = &reference[idx];
                let mut difference: Option<(String, &'static str)> = None;
                if step.real.outcome != *ref_outcome {
                    difference = Some((format!("the call returned {:?}, under Always(Flush) {:?}", step.real.outcome, ref_outcome), "policy-outcome-differs"));
                } else {
                    match &state {
                        Err(msg) => difference = Some((format!("read accessors failed: {msg}"), "policy-state-differs")),
                        Ok(state) => {
                            if let Some(diff) = diff_states(ref_state, state) {
                                difference = Some((format!("observable state differs from the state under Always(Flush): {diff}"), "policy-state-differs"));
                            } else if disk != *ref_disk {
                                difference = Some((format!("disk_used_bytes = {disk}, under Always(Flush) {ref_disk}"), "policy-disk-usage-differs"));
                            }
                        }
                    }
                }
                if let Some((what, signature)) = difference {
                    if round == 0 {
                        return Err(CaseError::Skip("nondeterministic-under-one-policy".to_string()));
                    }
                    return Err(exec.failure(
                        format!("op #{idx} {}: under {policy:?} {what}", cop.short()),
                        signature,
                        json!({"policy": policy}),
                    ));
                }
            }
            other.driver.close()?;
            env.scratch.remove(&other_dir);
        }
        env.class_n("rollovers", rollovers);
        env.class_n("unlinks", unlinks);
        if rollovers >= 1 && unlinks >= 1 {
            env.nontrivial(hash64(&cops));
            env.sample(|| json!({"ops": ops_sample(&cops), "rollovers": rollovers, "unlinks": unlinks, "policies": 9}));
        }
        env.scratch.remove(&dir);
        Ok(())
    }
}
