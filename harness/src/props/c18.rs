//! C18 — queues are isolated from one another (metamorphic: history vs. its projection).

use std::collections::BTreeSet;
use std::ops::Bound;
use std::rc::Rc;

use mrecordlog::MultiRecordLog;
use proptest::strategy::BoxedStrategy;
use serde_json::json;

use crate::case::{ops_sample, Case, CaseError, Env, Tier};
use crate::exec::Exec;
use crate::iotrace::Effect;
use crate::model::{Bytes, Outcome, QState};
use crate::ops::{COp, GenCfg, Policy, SOp};
use crate::runner::Property;
use crate::util::{guarded, hash64};

pub struct C18;

pub fn gen_cfg(tier: Tier) -> GenCfg {
    let mut cfg = super::c01::gen_cfg(tier);
    cfg.max_ops = if tier == Tier::Quick { 50 } else { 120 };
    cfg.pool = 4;
    cfg.restart_policies = vec![];
    cfg.w_special_names = 1;
    cfg
}

/// What one queue returns: None if it does not exist.
pub fn observe_queue(log: &MultiRecordLog, name: &str) -> Result<Option<QState>, String> {
    guarded(|| -> Result<Option<QState>, String> {
        if !log.queue_exists(name) {
            if log.list_queues().any(|listed| listed == name) {
                return Err(format!("{name:?} is listed but queue_exists is false"));
            }
            return Ok(None);
        }
        let recs: Vec<(u64, Bytes)> = log
            .range(name, (Bound::<u64>::Unbounded, Bound::<u64>::Unbounded))
            .map_err(|_| format!("range({name:?}) says missing"))?
            .map(|record| (record.position, Rc::from(&record.payload[..])))
            .collect();
        let next = log
            .last_position(name)
            .map_err(|_| format!("last_position({name:?}) says missing"))?
            .map(|pos| pos + 1)
            .unwrap_or(0);
        Ok(Some(QState { recs, next }))
    })
    .map_err(|panic| format!("read accessor panicked: {panic}"))?
}

fn describe(state: &Option<QState>) -> String {
    match state {
        None => "absent".to_string(),
        Some(queue) => {
            let positions: Vec<u64> = queue.recs.iter().map(|(pos, _)| *pos).collect();
            if positions.len() > 10 {
                format!("{} records {:?}..{:?} next={}", positions.len(), positions.first(), positions.last(), queue.next)
            } else {
                format!("records {:?} next={}", positions, queue.next)
            }
        }
    }
}

pub fn is_projected(cop: &COp, name: &str) -> bool {
    match cop.queue() {
        Some(q) => q.text() == name,
        None => true,
    }
}

impl Property for C18 {
    fn id(&self) -> &'static str {
        "C18"
    }

    fn rule(&self) -> String {
        "metamorphic, no reference model: a generated history H over k >= 2 queues (file-sized payloads, truncations \
         and deletions that unlink files, restarts) is executed; then for EVERY queue q it touches, its projection \
         H|q (the calls addressed to q plus the restarts / persists, same concrete arguments) is executed in a fresh \
         directory; after every projected call the outcome (position / eviction count / error variant) and q's \
         observable content (existence, range(..) bytes, last_position) must be identical in both runs, and q's \
         content must not change across any call addressed to another queue. evaluations = (queue, comparison point) \
         pairs. non-trivial = a call to another queue unlinked >= 1 file while q retained records; distinct = \
         hash(q, concrete history). Crash variants: see C02/C04 (crash inside another queue's GC) and the thorough tier."
            .to_string()
    }

    fn assumptions(&self) -> Vec<String> {
        vec!["wal_bytes_written is excluded from the comparison (padding and GC entries legitimately depend on the other queues)".to_string()]
    }

    fn cases(&self, tier: Tier) -> u32 {
        match tier {
            Tier::Quick => 4_000,
            Tier::Thorough => 60_000,
        }
    }

    fn strategy(&self, tier: Tier) -> BoxedStrategy<Case> {
        super::case_strategy(
            &gen_cfg(tier),
            vec![Policy::DEFAULT, Policy::DEFAULT, Policy::DoNothing, Policy::Always { fsync: true }],
            1,
        )
    }

    fn run(&self, case: &Case, env: &mut Env) -> Result<(), CaseError> {
        let dir = env.scratch.fresh("c18-full");
        let mut exec = Exec::new(&dir, case.policy)?;
        let mut ops = case.ops.clone();
        ops.push(SOp::Restart { policy: None });
        // full run: after every call, record what every touched queue returns
        let mut touched: BTreeSet<String> = BTreeSet::new();
        let mut full_obs: Vec<std::collections::BTreeMap<String, Option<QState>>> = Vec::new();
        let mut full_outcomes: Vec<Outcome> = Vec::new();
        let mut unlinking_ops: Vec<usize> = Vec::new();
        for sop in &ops {
            let step = exec.step(sop)?;
            if let Outcome::Panic(msg) | Outcome::IoError(msg) | Outcome::OpenFailed(msg) = &step.real.outcome {
                return Err(exec.failure(format!("op #{} {}: {msg}", step.idx, step.cop.short()), "call-failed", json!({})));
            }
            if let Some(q) = step.cop.queue() {
                touched.insert(q.text());
            }
            if exec.effects()[step.effects.clone()].iter().any(|effect| matches!(effect, Effect::Unlink { .. })) {
                unlinking_ops.push(step.idx);
            }
            let log = exec.driver.log.as_ref().unwrap();
            let mut obs = std::collections::BTreeMap::new();
            for name in &touched {
                let queue = observe_queue(log, name)
                    .map_err(|msg| exec.failure(format!("after op #{}: {msg}", step.idx), "observe-failed", json!({})))?;
                obs.insert(name.clone(), queue);
            }
            // isolation, direct form: a call addressed to queue A must not change what any other queue returns
            if let (Some(q), Some(prev)) = (step.cop.queue(), full_obs.last()) {
                let target = q.text();
                for (name, queue) in &obs {
                    if *name != target {
                        if let Some(before) = prev.get(name) {
                            if before != queue {
                                return Err(exec.failure(
                                    format!("op #{} {} (addressed to {target:?}) changed queue {name:?}: before {} / after {}",
                                        step.idx, step.cop.short(), describe(before), describe(queue)),
                                    "other-queue-changed",
                                    json!({"queue": name}),
                                ));
                            }
                        }
                    }
                }
            }
            full_obs.push(obs);
            full_outcomes.push(step.real.outcome.clone());
        }
        exec.driver.close()?;
        let cops = exec.cops.clone();
        // projections
        for name in &touched {
            let proj_dir = env.scratch.fresh("c18-proj");
            let mut proj = Exec::new(&proj_dir, case.policy)?;
            let mut retained_during_unlink = false;
            for (idx, cop) in cops.iter().enumerate() {
                if unlinking_ops.contains(&idx)
                    && cop.queue().map(|q| q.text() != *name).unwrap_or(false)
                    && full_obs[idx].get(name).and_then(|queue| queue.as_ref()).map(|queue| !queue.recs.is_empty()).unwrap_or(false)
                {
                    retained_during_unlink = true;
                }
                if !is_projected(cop, name) {
                    continue;
                }
                let step = proj.step_concrete(cop.clone())?;
                env.evals(1);
                if step.real.outcome != full_outcomes[idx] {
                    return Err(exec.failure(
                        format!("queue {name:?}, op #{idx} {}: full history returned {:?}, projection onto {name:?} returned {:?}",
                            cop.short(), full_outcomes[idx], step.real.outcome),
                        "projection-outcome-differs",
                        json!({"queue": name}),
                    ));
                }
                let queue = observe_queue(proj.driver.log.as_ref().unwrap(), name)
                    .map_err(|msg| exec.failure(format!("projection onto {name:?}: {msg}"), "observe-failed", json!({"queue": name})))?;
                let full = full_obs[idx].get(name).cloned().unwrap_or(None);
                if queue != full {
                    return Err(exec.failure(
                        format!("queue {name:?} after op #{idx} {}: full history gives {} but its projection gives {}",
                            cop.short(), describe(&full), describe(&queue)),
                        "projection-content-differs",
                        json!({"queue": name}),
                    ));
                }
            }
            proj.driver.close()?;
            env.scratch.remove(&proj_dir);
            if retained_during_unlink {
                env.class("queue-retained-during-foreign-unlink");
                env.nontrivial(hash64(&(name, &cops)));
                env.sample(|| json!({"queue": name, "ops": ops_sample(&cops), "ops_unlinking_files": unlinking_ops}));
            }
        }
        env.class_n("queues-projected", touched.len() as u64);
        env.scratch.remove(&dir);
        Ok(())
    }
}
