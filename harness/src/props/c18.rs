//! C18 — queues are isolated from one another (metamorphic: history vs. its projection).

use std::collections::BTreeSet;
use std::ops::Bound;
use std::rc::Rc;

use mrecordlog::MultiRecordLog;
use proptest::strategy::BoxedStrategy;
use serde_json::json;

use crate::case::{ops_sample, Case, CaseError, Env, Tier};
use crate::crash::{for_each_crash_point, CrashCtx, Selection};
use crate::exec::Exec;
use crate::iotrace::{Effect, Image};
use crate::recover::recover;
use crate::model::{Bytes, Outcome, QState};
use crate::ops::{COp, GenCfg, Policy, SOp};
use crate::runner::Property;
use crate::util::{guarded, hash64, mix};

pub struct C18;

pub fn gen_cfg(tier: Tier) -> GenCfg {
    let mut cfg = super::c01::gen_cfg(tier);
    cfg.max_ops = if tier == Tier::Quick { 50 } else { 120 };
    cfg.pool = 4;
    cfg.restart_policies = vec![];
    cfg.w_special_names = 1;
    cfg
}

/// What one queue returns: None if it does not exist.
pub fn observe_queue(log: &MultiRecordLog, name: &str) -> Result<Option<QState>, String> {
    guarded(|| -> Result<Option<QState>, String> {
        if !log.queue_exists(name) {
            if log.list_queues().any(|listed| listed == name) {
                return Err(format!("{name:?} is listed but queue_exists is false"));
            }
            return Ok(None);
        }
        let recs: Vec<(u64, Bytes)> = log
            .range(name, (Bound::<u64>::Unbounded, Bound::<u64>::Unbounded))
            .map_err(|_| format!("range({name:?}) says missing"))?
            .map(|record| (record.position, Rc::from(&record.payload[..])))
            .collect();
        let next = log
            .last_position(name)
            .map_err(|_| format!("last_position({name:?}) says missing"))?
            .map(|pos| pos + 1)
            .unwrap_or(0);
        Ok(Some(QState { recs, next }))
    })
    .map_err(|panic| format!("read accessor panicked: {panic}"))?
}

fn describe(state: &Option<QState>) -> String {
    match state {
        None => "absent".to_string(),
        Some(queue) => {
            let positions: Vec<u64> = queue.recs.iter().map(|(pos, _)| *pos).collect();
            if positions.len() > 10 {
                format!("{} records {:?}..{:?} next={}", positions.len(), positions.first(), positions.last(), queue.next)
            } else {
                format!("records {:?} next={}", positions, queue.next)
            }
        }
    }
}

pub fn is_projected(cop: &COp, name: &str) -> bool {
    match cop.queue() {
        Some(q) => q.text() == name,
        None => true,
    }
}

impl Property for C18 {
    fn id(&self) -> &'static str {
        "C18"
    }

    fn rule(&self) -> String {
        "metamorphic, no reference model: a generated history H over k >= 2 queues (file-sized payloads, truncations \
         and deletions that unlink files, restarts) is executed; then for EVERY queue q it touches, its projection \
         H|q (the calls addressed to q plus the restarts / persists, same concrete arguments) is executed in a fresh \
         directory; after every projected call the outcome (position / eviction count / error variant) and q's \
         observable content (existence, range(..) bytes, last_position) must be identical in both runs, and q's \
         content must not change across any call addressed to another queue. evaluations = (queue, comparison point) \
         pairs. non-trivial = a call to another queue unlinked >= 1 file while q retained records; distinct = \
         hash(q, concrete history). A deterministic campaign (16 / 256 variants) adds crafted content: a record of queue b whose \
         tail in the next WAL file is the byte image of an entry for queue a; b is truncated, the first file is collected, \
         the log restarted; a must not change. Crash variants (histories run under Always(Flush|FlushAndFsync); under DoNothing only the existence of the other queues is compared): crash points are \
         ENUMERATED over the recorded I/O trace (every effect boundary + byte cuts) and every queue the in-flight call does \
         not address must recover exactly as after its own completed calls; non-trivial there = crash strictly inside a \
         call to another queue that unlinks files while q retains records."
            .to_string()
    }

    fn assumptions(&self) -> Vec<String> {
        vec!["wal_bytes_written is excluded from the comparison (padding and GC entries legitimately depend on the other queues)".to_string()]
    }

    fn cases(&self, tier: Tier) -> u32 {
        match tier {
            Tier::Quick => 4_000,
            Tier::Thorough => 60_000,
        }
    }

    /// Isolation against crafted content (deterministic, sharded; shared with C08's decoy campaign, mode C): a record of
    /// queue "b" whose tail — the part written into the next WAL file — is the byte image of an entry addressed to
    /// another queue; "b" is truncated, the first file garbage-collected, the log restarted: the other queue must not
    /// change.
    fn fixed_work(&self, env: &mut Env, shard: u32, shards: u32) -> Result<(), CaseError> {
        super::c08::C08.orphan_tail_campaign(env, shard, shards)?;
        // content-dependent isolation: a record of queue a whose frame header carries a chosen checksum value (0, ...)
        // must not make the records queue b appends afterwards disappear at the next restart
        super::c01::crafted_checksum_campaign(env, shard, shards)
    }

    fn strategy(&self, tier: Tier) -> BoxedStrategy<Case> {
        super::case_strategy(
            &gen_cfg(tier),
            vec![Policy::DEFAULT, Policy::DEFAULT, Policy::DoNothing, Policy::Always { fsync: true }],
            4,
        )
    }

    fn run(&self, case: &Case, env: &mut Env) -> Result<(), CaseError> {
        if let Some(cell) = case.extra.as_ref().and_then(|extra| extra.get("crafted_crc")).and_then(|value| value.as_u64()) {
            return super::c01::crafted_checksum_campaign(env, cell as u32, 16);
        }
        if let Some(variant) = case.extra.as_ref().and_then(|extra| extra.get("orphan_variant")).and_then(|value| value.as_u64()) {
            return super::c08::C08.orphan_tail_campaign(env, variant as u32 % 256, 256);
        }
        let dir = env.scratch.fresh("c18-full");
        let mut exec = Exec::new(&dir, case.policy)?;
        let mut ops = case.ops.clone();
        ops.push(SOp::Restart { policy: None });
        // full run: after every call, record what every touched queue returns
        let mut touched: BTreeSet<String> = BTreeSet::new();
        let mut full_obs: Vec<std::collections::BTreeMap<String, Option<QState>>> = Vec::new();
        let mut full_outcomes: Vec<Outcome> = Vec::new();
        let mut unlinking_ops: Vec<usize> = Vec::new();
        for sop in &ops {
            let step = exec.step(sop)?;
            exec.usable_or_skip(&step)?;
            if let Some(q) = step.cop.queue() {
                touched.insert(q.text());
            }
            if exec.effects()[step.effects.clone()].iter().any(|effect| matches!(effect, Effect::Unlink { .. })) {
                unlinking_ops.push(step.idx);
            }
            let log = exec.driver.log.as_ref().unwrap();
            let mut obs = std::collections::BTreeMap::new();
            for name in &touched {
                let queue = observe_queue(log, name)
                    .map_err(|msg| exec.failure(format!("after op #{}: {msg}", step.idx), "observe-failed", json!({})))?;
                obs.insert(name.clone(), queue);
            }
            // isolation, direct form: a call addressed to queue A must not change what any other queue returns
            if let (Some(q), Some(prev)) = (step.cop.queue(), full_obs.last()) {
                let target = q.text();
                for (name, queue) in &obs {
                    if *name != target {
                        if let Some(before) = prev.get(name) {
                            if before != queue {
                                return Err(exec.failure(
                                    format!("op #{} {} (addressed to {target:?}) changed queue {name:?}: before {} / after {}",
                                        step.idx, step.cop.short(), describe(before), describe(queue)),
                                    "other-queue-changed",
                                    json!({"queue": name}),
                                ));
                            }
                        }
                    }
                }
            }
            full_obs.push(obs);
            full_outcomes.push(step.real.outcome.clone());
        }
        exec.driver.close()?;
        let cops = exec.cops.clone();
        // projections
        for name in &touched {
            let proj_dir = env.scratch.fresh("c18-proj");
            let mut proj = Exec::new(&proj_dir, case.policy)?;
            let mut retained_during_unlink = false;
            for (idx, cop) in cops.iter().enumerate() {
                if unlinking_ops.contains(&idx)
                    && cop.queue().map(|q| q.text() != *name).unwrap_or(false)
                    && full_obs[idx].get(name).and_then(|queue| queue.as_ref()).map(|queue| !queue.recs.is_empty()).unwrap_or(false)
                {
                    retained_during_unlink = true;
                }
                if !is_projected(cop, name) {
                    continue;
                }
                let step = proj.step_concrete(cop.clone())?;
                env.evals(1);
                if step.real.outcome != full_outcomes[idx] {
                    return Err(exec.failure(
                        format!("queue {name:?}, op #{idx} {}: full history returned {:?}, projection onto {name:?} returned {:?}",
                            cop.short(), full_outcomes[idx], step.real.outcome),
                        "projection-outcome-differs",
                        json!({"queue": name}),
                    ));
                }
                let queue = observe_queue(proj.driver.log.as_ref().unwrap(), name)
                    .map_err(|msg| exec.failure(format!("projection onto {name:?}: {msg}"), "observe-failed", json!({"queue": name})))?;
                let full = full_obs[idx].get(name).cloned().unwrap_or(None);
                if queue != full {
                    return Err(exec.failure(
                        format!("queue {name:?} after op #{idx} {}: full history gives {} but its projection gives {}",
                            cop.short(), describe(&full), describe(&queue)),
                        "projection-content-differs",
                        json!({"queue": name}),
                    ));
                }
            }
            proj.driver.close()?;
            env.scratch.remove(&proj_dir);
            if retained_during_unlink {
                env.class("queue-retained-during-foreign-unlink");
                env.nontrivial(hash64(&(name, &cops)));
                env.sample(|| json!({"queue": name, "ops": ops_sample(&cops), "ops_unlinking_files": unlinking_ops}));
            }
        }
        env.class_n("queues-projected", touched.len() as u64);
        // crash variants (flush-per-operation policies): a crash between calls, or strictly inside a call addressed
        // to ANOTHER queue (notably between the unlinks of its GC), must leave q exactly as after q's completed calls
        let crash_variant = case.extra.as_ref().map_or(false, |extra| extra.get("crash").is_some())
            || case.words.first().map_or(false, |word| word % 3 == 0);
        // Under DoNothing only EXISTENCE is compared: what a queue holds after a crash then depends on what happened to be
        // buffered, but a queue whose create_queue call completed (creation is persisted on return under every policy)
        // cannot vanish because of calls addressed to other queues.
        let existence_only = case.policy == Policy::DoNothing;
        if (matches!(case.policy, Policy::Always { .. }) || existence_only) && crash_variant {
            let effects: Vec<Effect> = exec.effects().to_vec();
            let frames = exec.driver.tracer.frames.clone();
            let mut selection = Selection::standard(&case.words);
            selection.exhaustive_below = 0;
            selection.generated_cuts = 1;
            selection.only = super::c02::parse_crash_point(&case.extra);
            let crash_dir = env.scratch.fresh("c18-crash");
            let history_hash = hash64(&cops);
            for_each_crash_point(&Image::default(), &effects, &frames, &selection, |ctx: &CrashCtx| -> Result<(), CaseError> {
                let inflight = ctx.inflight.filter(|op| *op != usize::MAX);
                let inflight_target: Option<String> = inflight.and_then(|op| cops[op].queue().map(|q| q.text()));
                let expected = match ctx.last_completed {
                    Some(idx) if idx != usize::MAX => full_obs[idx].clone(),
                    _ => Default::default(),
                };
                env.evals(1);
                let extra = json!({"crash": {"k": ctx.point.k, "b": ctx.point.b}});
                let where_ = format!("crash at effect {} byte {} ({}; in-flight call: {})", ctx.point.k, ctx.point.b, ctx.class.name(),
                    inflight.map(|op| format!("#{op} {}", cops[op].short())).unwrap_or_else(|| "none".into()));
                let mut recovered = match recover(ctx.image, &crash_dir, case.policy) {
                    Ok(recovered) => recovered,
                    Err(crate::recover::RecoverError::Engine(msg)) => return Err(CaseError::Engine(msg)),
                    Err(_) => {
                        // a recovery that fails is C02's concern
                        let _ = &extra;
                        env.class("crash:open-failed-skipped");
                        return Ok(());
                    }
                };
                // Every 4th crash point strictly inside a call (and always when replaying): after the recovery, each OTHER
                // queue gets one more record, and the log is restarted once more — what the torn call of one queue left
                // behind must not make another queue's next record disappear.
                let probe = ctx.class.strictly_inside_op()
                    && !existence_only
                    && (selection.only.is_some() || mix(history_hash, hash64(&ctx.point)) % 4 == 0);
                let mut probe_failure: Option<(String, String)> = None;
                if probe {
                    let others: Vec<String> = recovered
                        .state
                        .keys()
                        .filter(|name| inflight_target.as_deref() != Some(name.as_str()))
                        .cloned()
                        .collect();
                    let mut appended: Vec<(String, u64, Vec<u8>)> = Vec::new();
                    {
                        let log = recovered.driver.log.as_mut().unwrap();
                        for (idx, name) in others.iter().enumerate() {
                            let payload = crate::util::fill(0xC18 ^ idx as u64, 24 + idx, 0);
                            let outcome = crate::util::guarded(|| log.append_record(name, None, &payload[..]));
                            if let Ok(Ok(outcome)) = outcome {
                                if let Some(pos) = outcome.last_position {
                                    appended.push((name.clone(), pos, payload));
                                }
                            }
                        }
                    }
                    let _ = recovered.driver.tracer.feed(mrecordlog::verif_hooks::take_events());
                    recovered.driver.close()?;
                    if !appended.is_empty() {
                        env.class("crash:probe-other-queues-then-restart");
                        match crate::recover::recover_dir(&crash_dir, case.policy) {
                            Ok(mut second) => {
                                second.driver.close()?;
                                for (name, pos, payload) in &appended {
                                    let found = second.state.get(name).and_then(|queue| queue.recs.iter().find(|(other, _)| other == pos));
                                    let ok = found.map_or(false, |(_, bytes)| bytes[..] == payload[..]);
                                    if !ok {
                                        probe_failure = Some((name.clone(), format!("the record appended to {name:?} at position {pos} right after the recovery is gone (or altered) after one more restart")));
                                        break;
                                    }
                                }
                            }
                            Err(crate::recover::RecoverError::Engine(msg)) => return Err(CaseError::Engine(msg)),
                            Err(_) => env.class("crash:second-open-failed-skipped"),
                        }
                    }
                } else {
                    recovered.driver.close()?;
                }
                if let Some((name, msg)) = probe_failure {
                    return Err(exec.failure(
                        format!("{where_}: {msg}"),
                        "other-queue-loses-record-after-recovery",
                        json!({"crash": {"k": ctx.point.k, "b": ctx.point.b}, "queue": name}),
                    ));
                }
                let unlinks_in_call = inflight.map_or(false, |op| unlinking_ops.contains(&op));
                for name in &touched {
                    if inflight_target.as_deref() == Some(name.as_str()) {
                        continue;
                    }
                    let want: Option<QState> = expected.get(name).cloned().unwrap_or(None);
                    let got: Option<QState> = recovered.state.get(name).cloned();
                    if existence_only {
                        if want.is_some() && got.is_none() {
                            return Err(exec.failure(
                                format!("{where_} [DoNothing]: queue {name:?}, which the in-flight call does not address and whose creation had completed, does not exist after recovery"),
                                "other-queue-vanished-after-crash",
                                json!({"crash": {"k": ctx.point.k, "b": ctx.point.b}, "queue": name}),
                            ));
                        }
                        if ctx.class.strictly_inside_op() && unlinks_in_call && want.is_some() {
                            env.class("crash-inside-foreign-call-that-unlinks[DoNothing]");
                            env.nontrivial(mix(history_hash, hash64(&(ctx.point, name))));
                        }
                        continue;
                    }
                    if got != want {
                        return Err(exec.failure(
                            format!("{where_}: queue {name:?}, which the in-flight call does not address, recovers as {} but its own completed calls give {}",
                                describe(&got), describe(&want)),
                            "other-queue-changed-by-crash",
                            json!({"crash": {"k": ctx.point.k, "b": ctx.point.b}, "queue": name}),
                        ));
                    }
                    if ctx.class.strictly_inside_op() && unlinks_in_call && want.as_ref().map_or(false, |queue| !queue.recs.is_empty()) {
                        env.class("crash-inside-foreign-call-that-unlinks-while-queue-retains");
                        env.nontrivial(mix(history_hash, hash64(&(ctx.point, name))));
                    }
                }
                Ok(())
            })?;
            env.scratch.remove(&crash_dir);
        }
        env.scratch.remove(&dir);
        Ok(())
    }
}
