//! C07 — entries of any size round-trip at any block or file alignment.

use std::io;

use mrecordlog::verif_hooks::verif_api;
use mrecordlog::{BlockRead, BlockWrite, PersistAction, Serializable};
use proptest::strategy::BoxedStrategy;
use serde_json::json;

use crate::case::{ops_sample, Case, CaseError, Env, Failure, Tier};
use crate::exec::Exec;
use crate::ops::{COp, GenCfg, Policy, SOp};
use crate::runner::Property;
use crate::util::{guarded, hash64, mix, splitmix, BLOCK, FRAME_HEADER};

pub struct C07;

/// Raw entry: any byte string.
pub struct Raw<'a>(pub &'a [u8]);

impl<'a> Serializable<'a> for Raw<'a> {
    fn serialize(&self, buffer: &mut Vec<u8>) {
        buffer.clear();
        buffer.extend_from_slice(self.0);
    }

    fn deserialize(buffer: &'a [u8]) -> Option<Self> {
        Some(Raw(buffer))
    }
}

#[derive(Default)]
pub struct VecWriter {
    pub bytes: Vec<u8>,
}

impl BlockWrite for VecWriter {
    fn write(&mut self, buf: &[u8]) -> io::Result<()> {
        assert!(buf.len() <= self.num_bytes_remaining_in_block());
        self.bytes.extend_from_slice(buf);
        Ok(())
    }

    fn persist(&mut self, _persist_action: PersistAction) -> io::Result<()> {
        Ok(())
    }

    fn num_bytes_remaining_in_block(&self) -> usize {
        BLOCK - (self.bytes.len() % BLOCK)
    }
}

pub struct VecReader {
    data: Vec<u8>,
    block_idx: usize,
    block: Box<[u8; BLOCK]>,
}

impl VecReader {
    pub fn new(mut data: Vec<u8>) -> VecReader {
        let padded = ((data.len() / BLOCK) + 1) * BLOCK;
        data.resize(padded, 0);
        let mut block = Box::new([0u8; BLOCK]);
        block.copy_from_slice(&data[..BLOCK]);
        VecReader { data, block_idx: 0, block }
    }
}

impl BlockRead for VecReader {
    fn next_block(&mut self) -> io::Result<bool> {
        let start = (self.block_idx + 1) * BLOCK;
        if start + BLOCK > self.data.len() {
            return Ok(false);
        }
        self.block.copy_from_slice(&self.data[start..start + BLOCK]);
        self.block_idx += 1;
        Ok(true)
    }

    fn block(&self) -> &[u8; BLOCK] {
        &self.block
    }
}

/// Writes `entries` (after a filler that leaves the cursor at in-block offset `start`) and reads
/// everything back. Returns the number of bytes written.
pub fn roundtrip(start: usize, entries: &[Vec<u8>]) -> Result<usize, String> {
    roundtrip_after(None, start, entries)
}

/// Like `roundtrip`, but the log begins with the First frame of an entry whose other frames never came (what a torn
/// write leaves behind): everything written after it must still be read back identical.
pub fn roundtrip_after(dangling_first: Option<usize>, start: usize, entries: &[Vec<u8>]) -> Result<usize, String> {
    roundtrip_before(dangling_first.map_or(Before::Nothing, Before::DanglingFirst), start, entries)
}

/// What the log holds before the first entry that must round-trip.
#[derive(Clone, Copy, Debug, PartialEq, Eq)]
pub enum Before {
    Nothing,
    /// The First frame of an entry whose other frames never came (a torn write).
    DanglingFirst(usize),
    /// The tail of an entry whose head is gone (what a WAL file begins with when an entry straddled two files and the
    /// first one was garbage-collected): a Last frame of `n % 100_000` bytes, preceded by a whole-block Middle frame
    /// when `n >= 100_000`. It must be dropped; nothing of it may be delivered.
    OrphanTail(usize),
}

pub fn roundtrip_before(before: Before, start: usize, entries: &[Vec<u8>]) -> Result<usize, String> {
    let result = guarded(|| -> Result<usize, String> {
        let mut initial = VecWriter::default();
        let dangling_first = if let Before::DanglingFirst(len) = before { Some(len) } else { None };
        if let Before::OrphanTail(code) = before {
            let tail = code % 100_000;
            let middles = if code >= 100_000 { 1 } else { 0 };
            let mut torn = verif_api::record_writer(VecWriter::default());
            let long_entry = crate::util::fill(0x7A11 ^ code as u64, (1 + middles) * (BLOCK - FRAME_HEADER) + tail.max(1), 0);
            torn.write_record(Raw(&long_entry)).map_err(|err| format!("write entry for the orphan tail: {err}"))?;
            initial.bytes.extend_from_slice(&verif_api::underlying(&torn).bytes[BLOCK..]);
        }
        let orphan_len = initial.bytes.len();
        if let Some(len) = dangling_first {
            // written by the library's own writer (so that the frame is valid whatever the frame format is): an entry
            // longer than one block, of which only the first block — its First frame — is kept
            let mut torn = verif_api::record_writer(VecWriter::default());
            let long_entry = crate::util::fill(0xDA ^ len as u64, BLOCK + 100 + len, 0);
            torn.write_record(Raw(&long_entry)).map_err(|err| format!("write torn entry: {err}"))?;
            initial.bytes.extend_from_slice(&verif_api::underlying(&torn).bytes[..BLOCK]);
        }
        // the dangling First frame fills block 0 entirely: in-block offsets are unchanged; an orphan tail ends inside a block
        let dangling_len = orphan_len % BLOCK;
        let mut writer = verif_api::record_writer(initial);
        let mut expected: Vec<&[u8]> = Vec::new();
        let filler: Vec<u8>;
        if dangling_len > 0 {
            // the filler is sized so that the cursor still ends at in-block offset `start`
            if start % BLOCK < dangling_len + FRAME_HEADER {
                return Err(format!("engine: in-block offset {start} is not reachable after a dangling frame of {dangling_len} bytes"));
            }
            filler = crate::util::fill(start as u64, start % BLOCK - dangling_len - FRAME_HEADER, 0);
            writer.write_record(Raw(&filler)).map_err(|err| format!("write filler: {err}"))?;
            expected.push(&filler);
            let cursor = verif_api::underlying(&writer).bytes.len();
            if cursor % BLOCK != start % BLOCK {
                return Err(format!("engine: filler left the cursor at {cursor}, wanted in-block offset {start}"));
            }
        } else if start >= FRAME_HEADER {
            filler = crate::util::fill(start as u64, start - FRAME_HEADER, 0);
            writer.write_record(Raw(&filler)).map_err(|err| format!("write filler: {err}"))?;
            expected.push(&filler);
            let cursor = verif_api::underlying(&writer).bytes.len();
            if cursor % BLOCK != start % BLOCK {
                return Err(format!("engine: filler left the cursor at {cursor}, wanted in-block offset {start}"));
            }
        } else if start != 0 {
            return Err(format!("engine: in-block offset {start} is not reachable"));
        }
        let mut reported_total = 0u64;
        for entry in entries {
            // (the byte count write_record reports is C15's concern, not checked here)
            let reported = writer.write_record(Raw(entry)).map_err(|err| format!("write_record: {err}"))?;
            reported_total += reported;
            expected.push(entry);
        }
        let _ = reported_total;
        let bytes = verif_api::underlying(&writer).bytes.clone();
        let written = bytes.len();
        let mut reader = verif_api::RecordReader::open(VecReader::new(bytes));
        for (idx, want) in expected.iter().enumerate() {
            match reader.read_record::<Raw>() {
                Ok(Some(got)) => {
                    if got.0 != *want {
                        let first_diff = got.0.iter().zip(want.iter()).position(|(a, b)| a != b);
                        return Err(format!(
                            "entry #{idx} read back differently: wrote {} bytes, read {} bytes, first difference at {:?}",
                            want.len(), got.0.len(), first_diff
                        ));
                    }
                }
                Ok(None) => return Err(format!("entry #{idx} ({} bytes) is missing: the reader reports end of log", want.len())),
                Err(err) => return Err(format!("reading entry #{idx} ({} bytes) failed: {err:?}", want.len())),
            }
        }
        match reader.read_record::<Raw>() {
            Ok(None) => {}
            Ok(Some(extra)) => return Err(format!("an extra entry of {} bytes was read after the last one", extra.0.len())),
            Err(err) => return Err(format!("reading past the last entry failed: {err:?}")),
        }
        Ok(written)
    });
    match result {
        Ok(result) => result,
        Err(panic) => Err(format!("panic: {panic}")),
    }
}

const CRAFTED_TARGETS: [u32; 8] = [0, 1, 0x0100_0000, 0x0000_00FF, 0xFF00_0000, 0xFFFF_FFFF, 0x0000_FFFF, 0x0001_0000];

/// An entry of `body + 4` bytes whose single Full frame carries the checksum `target` (forged 4-byte suffix), followed by
/// three more entries (one of them crafted too). `Ok(false)`: the writer did not lay the entry out as one frame carrying
/// that checksum (a different frame format): nothing to check.
fn crafted_crc_cell(start: usize, target: u32, body: usize) -> Result<bool, String> {
    let craft = |seed: u64, body: usize| -> Result<Vec<u8>, String> {
        let mut entry = crate::util::fill(seed, body, 0);
        let mut crc_input: Vec<u8> = vec![1u8]; // frame type Full
        crc_input.extend_from_slice(&entry);
        let suffix = crate::util::forge_crc_suffix(&crc_input, target).ok_or_else(|| "engine: cannot forge a CRC suffix".to_string())?;
        entry.extend_from_slice(&suffix);
        Ok(entry)
    };
    let first = craft(0xC4C ^ start as u64, body)?;
    // self-check against the library's own writer
    let laid_out = guarded(|| {
        let mut probe = verif_api::record_writer(VecWriter::default());
        probe.write_record(Raw(&first)).is_ok() && {
            let bytes = &verif_api::underlying(&probe).bytes;
            bytes.len() == FRAME_HEADER + first.len() && bytes[..4] == target.to_le_bytes()
        }
    });
    if laid_out != Ok(true) {
        return Ok(false);
    }
    let entries = vec![first, crate::util::fill(33, 33, 0), craft(0xC4D, 10)?, crate::util::fill(5, 5, 0)];
    roundtrip(start, &entries).map(|_| true)
}

fn gen_cfg(tier: Tier) -> GenCfg {
    let mut cfg = GenCfg::default();
    cfg.max_ops = if tier == Tier::Quick { 14 } else { 30 };
    cfg.pool = 2;
    cfg.w_create = 2;
    cfg.w_delete = 0;
    cfg.w_truncate = 3;
    cfg.w_persist = 0;
    cfg.w_restart = 4;
    cfg.w_append = 80;
    cfg.w_missing_names = 1;
    cfg.w_special_names = 1;
    cfg.w_multi_batch = 20;
    cfg.max_batch = 3;
    cfg.w_pos_auto = 90;
    cfg.w_pos_next = 5;
    cfg.w_pos_retry = 1;
    cfg.w_pos_past = 1;
    cfg.w_pos_ahead = 3;
    cfg.w_pos_far = 0;
    cfg.w_len.zero = 6;
    cfg.w_len.tiny = 8;
    cfg.w_len.small = 6;
    cfg.w_len.medium = 6;
    cfg.w_len.blockish = 10;
    cfg.w_len.fileish = 8;
    cfg.w_len.huge = 4;
    cfg.w_len.aim_block = 30;
    cfg.w_len.aim_file = 14;
    cfg.w_len.aim_seven = 10;
    cfg
}

fn grid_starts(tier: Tier) -> Vec<usize> {
    // remaining space r in {0..=40} u {BLOCK-40..=BLOCK}  <=>  start offset BLOCK - r
    let mut starts: Vec<usize> = Vec::new();
    let span = if tier == Tier::Quick { 40 } else { 120 };
    for remaining in (0..=span).chain(BLOCK - span..=BLOCK) {
        let start = BLOCK - remaining;
        if start == 0 || start >= FRAME_HEADER {
            starts.push(start);
        }
    }
    starts.sort_unstable();
    starts.dedup();
    starts
}

fn grid_lengths(tier: Tier) -> Vec<usize> {
    let mut lengths: Vec<usize> = (0..=40).collect();
    let ks: Vec<usize> = (1..=9).collect();
    let spread: i64 = if tier == Tier::Quick { 20 } else { 48 };
    for k in ks {
        for delta in -spread..=spread {
            let length = (k * (BLOCK - FRAME_HEADER)) as i64 + delta;
            if length >= 0 {
                lengths.push(length as usize);
            }
        }
    }
    lengths.sort_unstable();
    lengths.dedup();
    lengths
}

impl Property for C07 {
    fn id(&self) -> &'static str {
        "C07"
    }

    fn rule(&self) -> String {
        "route 1 (in memory, through the hook's re-exports of the record layer): a filler entry puts the write cursor at a \
         chosen in-block offset, then entries (raw byte strings, xorshift content) are written and everything is read back; \
         oracle = identity, in order, nothing extra. A dense GRID is \
         enumerated, not sampled: remaining-space in {0..40} u {BLOCK-40..BLOCK} (offsets 1..6 are unreachable by \
         construction) x entry length in {0..40} u {k*32761 + d : k in 1..9, |d| <= 20} (thorough: remaining-space up to 120, |d| <= 48) x \
         follower in {nothing, empty entry, 9-byte entry, entry filling the rest of the block exactly}; the 9-byte-follower \
         cells are repeated with the log beginning with a dangling First frame (what a torn multi-frame write leaves); plus generated \
         sequences of 1..6 entries at generated offsets. route 2 (through files): generated append-dominated histories with \
         lengths aimed at block ends (0..14 bytes before), file ends and the 7-bytes-left case, payloads up to 320 KiB \
         spanning 3 files of 128 KiB, read back with range(..) after a restart and compared with what range(..) returned before the drop (model-free). evaluations = \
         round-trips. non-trivial = an entry that starts or ends within 14 bytes of a block end or spans >= 2 blocks; \
         distinct = hash(start offset, lengths) / hash(concrete history)."
            .to_string()
    }

    fn assumptions(&self) -> Vec<String> {
        vec!["route 1 drives RecordWriter / RecordReader over an in-memory BlockWrite / BlockRead of the harness (the rolling file layer is covered by route 2)".to_string()]
    }

    fn cases(&self, tier: Tier) -> u32 {
        match tier {
            Tier::Quick => 30_000,
            Tier::Thorough => 600_000,
        }
    }

    fn strategy(&self, tier: Tier) -> BoxedStrategy<Case> {
        super::case_strategy(&gen_cfg(tier), vec![Policy::DEFAULT, Policy::DoNothing], 8)
    }

    fn fixed_work(&self, env: &mut Env, shard: u32, shards: u32) -> Result<(), CaseError> {
        let starts = grid_starts(env.tier);
        let lengths = grid_lengths(env.tier);
        let mut cell = 0u32;
        for start in &starts {
            for length in &lengths {
                cell += 1;
                if cell % shards != shard {
                    continue;
                }
                let entry = crate::util::fill((*start as u64) << 20 | *length as u64, *length, 0);
                for follower in 0..4u8 {
                    let mut entries: Vec<Vec<u8>> = vec![entry.clone()];
                    match follower {
                        0 => {}
                        1 => entries.push(Vec::new()),
                        2 => entries.push(b"follower!".to_vec()),
                        _ => {
                            // fills the rest of the block exactly
                            let end = crate::ops::simulate_entry_end(*start as u64, *length as u64) as usize;
                            let remaining = BLOCK - end % BLOCK;
                            if remaining >= FRAME_HEADER && remaining < BLOCK {
                                entries.push(crate::util::fill(7, remaining - FRAME_HEADER, 0));
                            } else {
                                entries.push(crate::util::fill(7, BLOCK - FRAME_HEADER, 0));
                            }
                        }
                    }
                    env.evals(1);
                    if let Err(msg) = roundtrip(*start, &entries) {
                        if msg.starts_with("engine:") {
                            return Err(CaseError::Engine(msg));
                        }
                        let lens: Vec<usize> = entries.iter().map(|entry| entry.len()).collect();
                        return Err(CaseError::Violation(Box::new(Failure {
                            msg: format!("in-memory round-trip, cursor at in-block offset {start}, entry lengths {lens:?}: {msg}"),
                            signature: "roundtrip-mismatch".to_string(),
                            policy: Policy::DEFAULT,
                            ops: Vec::new(),
                            extra: json!({"grid": {"start": start, "lengths": lens}}),
                        })));
                    }
                    env.class("grid-cell");
                    env.nontrivial(hash64(&(*start, *length, follower)));
                    // same cell right after a torn entry (the log begins with a block holding only a First frame)
                    if follower == 2 {
                        for dangling in [0usize] {
                            env.evals(1);
                            if let Err(msg) = roundtrip_after(Some(dangling), *start, &entries) {
                                if msg.starts_with("engine:") {
                                    return Err(CaseError::Engine(msg));
                                }
                                let lens: Vec<usize> = entries.iter().map(|entry| entry.len()).collect();
                                return Err(CaseError::Violation(Box::new(Failure {
                                    msg: format!("in-memory round-trip after a torn entry (First frame only, variant {dangling}), cursor at in-block offset {start}, entry lengths {lens:?}: {msg}"),
                                    signature: "roundtrip-mismatch-after-dangling-frame".to_string(),
                                    policy: Policy::DEFAULT,
                                    ops: Vec::new(),
                                    extra: json!({"grid": {"start": start, "lengths": lens, "dangling": dangling}}),
                                })));
                            }
                            env.class("grid-cell-after-dangling-first-frame");
                        }
                        // same cell in a log that begins with the orphan tail of an entry whose head is gone
                        for code in [9usize, 100_003] {
                            if *start % BLOCK < code % 100_000 + 2 * FRAME_HEADER {
                                continue;
                            }
                            env.evals(1);
                            if let Err(msg) = roundtrip_before(Before::OrphanTail(code), *start, &entries) {
                                if msg.starts_with("engine:") {
                                    return Err(CaseError::Engine(msg));
                                }
                                let lens: Vec<usize> = entries.iter().map(|entry| entry.len()).collect();
                                return Err(CaseError::Violation(Box::new(Failure {
                                    msg: format!("in-memory round-trip in a log that begins with the orphan tail of an entry whose head is gone ({}Last frame of {} bytes), cursor at in-block offset {start}, entry lengths {lens:?}: {msg}", if code >= 100_000 { "Middle frame + " } else { "" }, code % 100_000),
                                    signature: "roundtrip-mismatch-after-orphan-tail".to_string(),
                                    policy: Policy::DEFAULT,
                                    ops: Vec::new(),
                                    extra: json!({"grid": {"start": start, "lengths": lens, "orphan_tail": code}}),
                                })));
                            }
                            env.class("grid-cell-after-orphan-tail");
                        }
                    }
                    if follower == 3 && *length > 30_000 {
                        env.sample(|| json!({"route": "in-memory grid", "start_offset_in_block": start, "entry_lengths": entries.iter().map(|entry| entry.len()).collect::<Vec<_>>()}));
                    }
                }
            }
        }
        // content-dependent cells: entries crafted so that the checksum field of their (single, Full) frame has a chosen value
        for target in CRAFTED_TARGETS {
            for start in [0usize, 20, 5_000, BLOCK - 100] {
                for body in [0usize, 13, 60] {
                    cell += 1;
                    if cell % shards != shard {
                        continue;
                    }
                    env.evals(1);
                    match crafted_crc_cell(start, target, body) {
                        Ok(true) => {
                            env.class("grid-cell-crafted-checksum");
                            env.nontrivial(hash64(&(0xC4Cu32, start, target, body)));
                        }
                        Ok(false) => env.class("grid-cell-crafted-checksum:layout-skipped"),
                        Err(msg) if msg.starts_with("engine:") => return Err(CaseError::Engine(msg)),
                        Err(msg) => {
                            return Err(CaseError::Violation(Box::new(Failure {
                                msg: format!("in-memory round-trip, cursor at in-block offset {start}, an entry of {} bytes crafted so that its frame header carries the checksum {target:#010x}, then 3 more entries: {msg}", body + 4),
                                signature: "roundtrip-mismatch-crafted-checksum".to_string(),
                                policy: Policy::DEFAULT,
                                ops: Vec::new(),
                                extra: json!({"crafted_crc": {"start": start, "target": target, "body": body}}),
                            })));
                        }
                    }
                }
            }
        }
        Ok(())
    }

    fn run(&self, case: &Case, env: &mut Env) -> Result<(), CaseError> {
        // replay of a grid cell / generated in-memory sequence
        if let Some(grid) = case.extra.as_ref().and_then(|extra| extra.get("grid")) {
            let start = grid.get("start").and_then(|value| value.as_u64()).unwrap_or(0) as usize;
            let lens: Vec<usize> = grid.get("lengths").and_then(|value| value.as_array()).map(|list| list.iter().map(|item| item.as_u64().unwrap_or(0) as usize).collect()).unwrap_or_default();
            let entries: Vec<Vec<u8>> = lens.iter().enumerate().map(|(idx, len)| crate::util::fill(idx as u64 + 1, *len, 0)).collect();
            let dangling = grid.get("dangling").and_then(|value| value.as_u64()).map(|value| value as usize);
            let orphan = grid.get("orphan_tail").and_then(|value| value.as_u64()).map(|value| value as usize);
            let before = match (dangling, orphan) {
                (_, Some(code)) => Before::OrphanTail(code),
                (Some(len), None) => Before::DanglingFirst(len),
                (None, None) => Before::Nothing,
            };
            return match roundtrip_before(before, start, &entries) {
                Ok(_) => Ok(()),
                Err(msg) => Err(CaseError::Violation(Box::new(Failure {
                    msg: format!("in-memory round-trip, cursor at in-block offset {start}, entry lengths {lens:?}: {msg}"),
                    signature: "roundtrip-mismatch".to_string(),
                    policy: Policy::DEFAULT,
                    ops: Vec::new(),
                    extra: json!({"grid": {"start": start, "lengths": lens}}),
                }))),
            };
        }
        if let Some(crafted) = case.extra.as_ref().and_then(|extra| extra.get("crafted_crc")) {
            let field = |name: &str| crafted.get(name).and_then(|value| value.as_u64()).unwrap_or(0);
            let (start, target, body) = (field("start") as usize, field("target") as u32, field("body") as usize);
            return match crafted_crc_cell(start, target, body) {
                Ok(_) => Ok(()),
                Err(msg) if msg.starts_with("engine:") => Err(CaseError::Engine(msg)),
                Err(msg) => Err(CaseError::Violation(Box::new(Failure {
                    msg: format!("in-memory round-trip, cursor at in-block offset {start}, an entry crafted so that its frame header carries the checksum {target:#010x}: {msg}"),
                    signature: "roundtrip-mismatch-crafted-checksum".to_string(),
                    policy: Policy::DEFAULT,
                    ops: Vec::new(),
                    extra: json!({"crafted_crc": {"start": start, "target": target, "body": body}}),
                }))),
            };
        }
        // route 1, generated sequences (driven by the generated words)
        let mut word_state = case.words.iter().fold(0xC07_u64, |acc, word| acc.rotate_left(17) ^ *word as u64);
        if !case.words.is_empty() {
            let start = match splitmix(&mut word_state) % 4 {
                0 => 0,
                1 => BLOCK - (splitmix(&mut word_state) % 41) as usize,
                _ => FRAME_HEADER + (splitmix(&mut word_state) % (BLOCK - FRAME_HEADER) as u64) as usize,
            };
            let count = 1 + splitmix(&mut word_state) % 6;
            let mut entries: Vec<Vec<u8>> = Vec::new();
            let mut cursor = start as u64;
            for _ in 0..count {
                let length = match splitmix(&mut word_state) % 6 {
                    0 => 0,
                    1 => splitmix(&mut word_state) % 64,
                    2 => splitmix(&mut word_state) % 40_000,
                    3 => splitmix(&mut word_state) % 300_000,
                    _ => {
                        // aim at the end of the current block, +-14
                        let remaining = BLOCK as u64 - cursor % BLOCK as u64;
                        let target = remaining.saturating_sub(FRAME_HEADER as u64) as i64 + (splitmix(&mut word_state) % 29) as i64 - 14;
                        target.max(0) as u64
                    }
                } as usize;
                entries.push(crate::util::fill(splitmix(&mut word_state), length, (splitmix(&mut word_state) % 4) as u8));
                cursor = crate::ops::simulate_entry_end(cursor, length as u64);
            }
            env.evals(1);
            let lens: Vec<usize> = entries.iter().map(|entry| entry.len()).collect();
            if let Err(msg) = roundtrip(start, &entries) {
                if msg.starts_with("engine:") {
                    return Err(CaseError::Engine(msg));
                }
                return Err(CaseError::Violation(Box::new(Failure {
                    msg: format!("in-memory round-trip, cursor at in-block offset {start}, entry lengths {lens:?}: {msg}"),
                    signature: "roundtrip-mismatch".to_string(),
                    policy: Policy::DEFAULT,
                    ops: Vec::new(),
                    extra: json!({"grid": {"start": start, "lengths": lens}}),
                })));
            }
            env.class("generated-sequence");
            env.nontrivial(mix(hash64(&start), hash64(&lens)));
        }
        // route 2: through files
        let dir = env.scratch.fresh("c07");
        let mut exec = Exec::new(&dir, case.policy)?;
        let mut ops = case.ops.clone();
        ops.push(SOp::Restart { policy: None });
        let mut near_block_end = 0u64;
        let mut multi_block = 0u64;
        let mut multi_file = 0u64;
        let mut at_file_end = 0u64;
        let file_bytes = crate::util::file_bytes();
        for sop in &ops {
            let frames_before = exec.driver.tracer.frames.len();
            let cop = exec.resolve(sop);
            let before = if matches!(cop, COp::Restart { .. }) {
                Some(exec.driver.observe().map_err(|_| CaseError::Skip("live-state-unobservable".to_string()))?)
            } else {
                None
            };
            let step = exec.step_concrete(cop)?;
            exec.usable_or_skip(&step)?;
            if let Some(before) = before {
                // every entry written must be read back identical and in order: compare the records (positions and
                // payload bytes) of every queue before the drop and after the re-open; next positions of empty
                // queues are other properties' concern
                env.evals(1);
                let after = exec.driver.observe().map_err(|msg| exec.failure(format!("after restart: {msg}"), "observe-failed", json!({})))?;
                for (name, queue) in &before {
                    if queue.recs.is_empty() {
                        continue;
                    }
                    let got = after.get(name).map(|other| &other.recs[..]).unwrap_or(&[]);
                    if got != &queue.recs[..] {
                        let positions = |recs: &[(u64, crate::model::Bytes)]| recs.iter().map(|(pos, bytes)| format!("{pos}:{}B", bytes.len())).take(12).collect::<Vec<_>>();
                        return Err(exec.failure(
                            format!("op #{} restart: records of queue {name:?} written before the restart {:?} are read back as {:?}", step.idx, positions(&queue.recs), positions(got)),
                            "entries-not-read-back",
                            json!({}),
                        ));
                    }
                }
            }
            let frames = &exec.driver.tracer.frames[frames_before..];
            if let (Some(first), Some(last)) = (frames.first(), frames.last()) {
                let start_in_block = first.off as usize % BLOCK;
                let end = last.off as usize + FRAME_HEADER + last.payload_len;
                let end_in_block = end % BLOCK;
                if BLOCK - start_in_block <= 14 || end_in_block == 0 || BLOCK - end_in_block <= 14 {
                    near_block_end += 1;
                }
                if frames.len() >= 2 {
                    multi_block += 1;
                }
                if frames.iter().any(|frame| frame.name != first.name) {
                    multi_file += 1;
                }
                if end == file_bytes || file_bytes - end < FRAME_HEADER {
                    at_file_end += 1;
                }
            }
        }
        env.class_n("file-route:entry-near-block-end", near_block_end);
        env.class_n("file-route:entry-multi-frame", multi_block);
        env.class_n("file-route:entry-spanning-files", multi_file);
        env.class_n("file-route:entry-ending-at-file-end", at_file_end);
        if near_block_end + multi_block > 0 {
            env.nontrivial(hash64(&exec.cops));
            env.sample(|| json!({"route": "files", "ops": ops_sample(&exec.cops), "entries_near_block_end": near_block_end, "multi_frame_entries": multi_block, "entries_spanning_files": multi_file}));
        }
        exec.driver.close()?;
        env.scratch.remove(&dir);
        Ok(())
    }
}
