//! C13 — rejected and no-op calls leave no trace.

use proptest::strategy::BoxedStrategy;
use serde_json::json;

use crate::case::{Case, CaseError, Env, Tier};
use crate::exec::Exec;
use crate::iotrace::{Effect, Image};
use crate::model::diff_states;
use crate::ops::{COp, GenCfg, Policy, SOp};
use crate::runner::Property;
use crate::util::hash64;

pub struct C13;

fn gen_cfg(tier: Tier) -> GenCfg {
    let mut cfg = GenCfg::default();
    cfg.max_ops = if tier == Tier::Quick { 40 } else { 100 };
    cfg.w_create = 14;
    cfg.w_delete = 6;
    cfg.w_append = 50;
    cfg.w_truncate = 16;
    cfg.w_restart = 5;
    cfg.w_missing_names = 10;
    cfg.w_special_names = 2;
    cfg.w_pos_auto = 30;
    cfg.w_pos_next = 8;
    cfg.w_pos_retry = 20;
    cfg.w_pos_past = 20;
    cfg.w_pos_ahead = 10;
    cfg.w_len.zero = 8;
    cfg.w_len.fileish = 6;
    cfg.w_len.huge = 0;
    cfg
}

impl Property for C13 {
    fn id(&self) -> &'static str {
        "C13"
    }

    fn rule(&self) -> String {
        "generated histories in which rejected / no-op call shapes (create-existing, delete/append/truncate on \
         missing names, Past by 1 or many with empty and non-empty batches, retry of the last position, empty \
         batch auto/explicit) are frequent; for every call whose SHAPE the statement lists (recognised by the reference model: missing queue, existing queue, \
         past position, retry of the last position, empty batch) and whatever the implementation answers: reported \
         wal_bytes_written == 0, the hook trace of the call has no \
         write/create/set_len/unlink/flush effect, the directory bytes are identical before and after, the \
         observable state is unchanged (so a later restart, which reads nothing but that directory, cannot see it either). evaluations = \
         rejected/no-op calls checked. non-trivial = such a call made while the WAL is non-empty and >= 1 queue \
         exists; distinct = hash(call shape, concrete history so far)."
            .to_string()
    }

    fn assumptions(&self) -> Vec<String> {
        vec!["which calls are rejected / no-ops is decided by the reference model (DESIGN.md section 2)".to_string()]
    }

    fn cases(&self, tier: Tier) -> u32 {
        match tier {
            Tier::Quick => 40_000,
            Tier::Thorough => 1_000_000,
        }
    }

    fn strategy(&self, tier: Tier) -> BoxedStrategy<Case> {
        super::case_strategy(
            &gen_cfg(tier),
            vec![
                Policy::Always { fsync: false },
                Policy::Always { fsync: false },
                Policy::Always { fsync: true },
                Policy::DoNothing,
            ],
            1,
        )
    }

    fn run(&self, case: &Case, env: &mut Env) -> Result<(), CaseError> {
        let dir = env.scratch.fresh("c13");
        let mut exec = Exec::new(&dir, case.policy)?;
        let mut ops = case.ops.clone();
        ops.push(SOp::Restart { policy: None });
        let mut wal_nonempty = false;
        for sop in &ops {
            let cop = exec.resolve(sop);
            // what would the model say? (apply on a clone)
            let expected = exec.model.clone().apply(&cop, None);
            let is_noop = expected.is_noop();
            let (before_state, before_image) = if is_noop {
                let state = exec.driver.observe().map_err(|msg| {
                    exec.failure(format!("observe before a no-op call: {msg}"), "observe-failed", json!({}))
                })?;
                let image = Image::from_dir(&dir)
                    .map_err(|err| CaseError::Engine(format!("cannot read dir: {err}")))?;
                (Some(state), Some(image))
            } else {
                (None, None)
            };
            let step = exec.step_concrete(cop)?;
            exec.usable_or_skip(&step)?;
            // The call SHAPES of the statement (missing queue, existing queue, past position, retry of the last position,
            // empty batch) are recognised by the reference model; such a call must change nothing, whatever the
            // implementation answers (the answer itself is C05's concern). Every other call must conform to the model,
            // otherwise later shapes cannot be recognised reliably and the case is skipped.
            if matches!(step.cop, COp::Restart { .. }) {
                // what a restart preserves is C01's concern: the shapes of later calls are recognised against what the
                // re-opened log shows
                match exec.driver.observe() {
                    Ok(observed) => exec.model = crate::model::Model::from_state(&observed),
                    Err(_) => return Err(CaseError::Skip("live-state-unobservable".to_string())),
                }
            } else if !is_noop {
                exec.conform_or_skip(&step)?;
            }
            if is_noop {
                env.evals(1);
                env.class(step.expected.class());
                let shape = format!("{}:{}", step.expected.class(), match &step.cop {
                    COp::Append { batch, pos, .. } => format!("batch{}-{}", batch.len().min(2), pos.is_some()),
                    _ => String::new(),
                });
                if step.real.wal_bytes != 0 {
                    return Err(exec.failure(
                        format!("op #{} {}: rejected/no-op call reports wal_bytes_written = {}", step.idx, step.cop.short(), step.real.wal_bytes),
                        "noop-reports-bytes",
                        json!({}),
                    ));
                }
                if step.written != 0 {
                    return Err(exec.failure(
                        format!("op #{} {}: rejected/no-op call wrote {} bytes to the WAL writer", step.idx, step.cop.short(), step.written),
                        "noop-writes",
                        json!({}),
                    ));
                }
                for effect in &exec.effects()[step.effects.clone()] {
                    match effect {
                        Effect::OpBegin { .. } | Effect::OpEnd { .. } => {}
                        other => {
                            let other = match other {
                                Effect::OsWrite { name, off, data } => format!("OsWrite({name}@{off}+{})", data.len()),
                                other => format!("{other:?}"),
                            };
                            return Err(exec.failure(
                                format!("op #{} {}: rejected/no-op call performed file-system effect {other}", step.idx, step.cop.short()),
                                "noop-effect",
                                json!({}),
                            ));
                        }
                    }
                }
                let after_image = Image::from_dir(&dir)
                    .map_err(|err| CaseError::Engine(format!("cannot read dir: {err}")))?;
                if Some(&after_image) != before_image.as_ref() {
                    return Err(exec.failure(
                        format!("op #{} {}: WAL directory content changed during a rejected/no-op call", step.idx, step.cop.short()),
                        "noop-dir-changed",
                        json!({}),
                    ));
                }
                let after_state = exec.driver.observe().map_err(|msg| {
                    exec.failure(format!("observe after a no-op call: {msg}"), "observe-failed", json!({}))
                })?;
                if let Some(diff) = diff_states(before_state.as_ref().unwrap(), &after_state) {
                    return Err(exec.failure(
                        format!("op #{} {}: observable state changed by a rejected/no-op call: {diff}", step.idx, step.cop.short()),
                        "noop-state-changed",
                        json!({}),
                    ));
                }
                if wal_nonempty && !exec.model.queues.is_empty() {
                    env.nontrivial(hash64(&(shape.clone(), &exec.cops)));
                    env.sample(|| json!({"noop_call": step.cop.short(), "shape": step.expected.class(),
                        "history_before": crate::case::ops_sample(&exec.cops[..exec.cops.len() - 1])}));
                }
            } else if step.written > 0 {
                wal_nonempty = true;
            }
        }
        exec.driver.close()?;
        env.scratch.remove(&dir);
        Ok(())
    }
}
