//! C02 — a crash at any instant recovers to an atomic, consistent prefix.

use proptest::strategy::BoxedStrategy;
use serde_json::{json, Value};

use crate::case::{ops_sample, Case, CaseError, Env, Tier};
use crate::crash::{for_each_crash_point, CrashClass, CrashCtx, CrashPoint, Selection};
use crate::exec::Exec;
use crate::iotrace::{Effect, Image};
use crate::model::{describe_state, diff_states, State};
use crate::ops::{COp, GenCfg, Policy, SOp};
use crate::recover::{matches_partial, recover, recover_dir, Recovered};
use crate::runner::Property;
use crate::util::{hash64, mix};

pub struct C02;

pub fn gen_cfg(tier: Tier) -> GenCfg {
    let mut cfg = super::c01::gen_cfg(tier);
    cfg.max_ops = if tier == Tier::Quick { 30 } else { 45 };
    cfg.restart_policies = vec![];
    cfg.w_restart = 5;
    cfg.w_len.huge = 0;
    cfg.w_aligned_batch = 4;
    cfg.w_len.fileish = 10;
    cfg
}

pub fn cont_cfg() -> GenCfg {
    let mut cfg = GenCfg::default();
    cfg.min_ops = 2;
    cfg.max_ops = 8;
    cfg.w_restart = 6;
    cfg.w_len.huge = 0;
    cfg
}

pub fn parse_crash_point(extra: &Option<Value>) -> Option<CrashPoint> {
    let crash = extra.as_ref()?.get("crash")?;
    Some(CrashPoint {
        k: crash.get("k")?.as_u64()? as usize,
        b: crash.get("b")?.as_u64()? as usize,
    })
}

/// State after the last completed op (`None`, or the initial open, = empty state).
pub fn state_after(snapshots: &[State], op: Option<usize>) -> State {
    match op {
        Some(idx) if idx != usize::MAX => snapshots[idx].clone(),
        _ => State::new(),
    }
}

pub enum ContinuationError {
    /// The recovered log behaves differently from a log that never crashed.
    Diverges(String, Vec<COp>),
    /// Nothing could be compared (the reference log could not be built / the engine failed).
    Undecided(String),
}

/// "Further operations and restarts behave exactly as on a log that never crashed" — differential, model-free: the
/// continuation is applied in lock-step to the recovered log and to a freshly built log with the same observable
/// state; every outcome, and the observable state at every restart and at the end, must be identical.
pub fn run_continuation(recovered: Recovered, cont: &[SOp], reference_dir: &std::path::Path) -> Result<Vec<COp>, ContinuationError> {
    let policy = recovered.driver.policy;
    let reference_driver = match crate::recover::build_equivalent(reference_dir, policy, &recovered.state) {
        Ok(driver) => driver,
        Err(msg) => return Err(ContinuationError::Undecided(format!("reference log: {msg}"))),
    };
    let mut exec = Exec::resume(recovered.driver, &recovered.state);
    let mut reference = Exec::resume(reference_driver, &recovered.state);
    let mut ops: Vec<SOp> = cont.to_vec();
    ops.push(SOp::Restart { policy: None });
    for sop in &ops {
        // the model only resolves the generated selectors into concrete arguments
        let cop = exec.resolve(sop);
        let step = match exec.step_concrete(cop.clone()) {
            Ok(step) => step,
            Err(err) => return Err(ContinuationError::Undecided(format!("engine: {err:?}"))),
        };
        let ref_step = match reference.step_concrete(cop) {
            Ok(step) => step,
            Err(err) => return Err(ContinuationError::Undecided(format!("engine (reference): {err:?}"))),
        };
        if step.real.outcome != ref_step.real.outcome {
            return Err(ContinuationError::Diverges(
                format!(
                    "continuation op #{} {}: the recovered log returned {:?}, a log that never crashed (same observable state) returned {:?}",
                    step.idx, step.cop.short(), step.real.outcome, ref_step.real.outcome
                ),
                exec.cops.clone(),
            ));
        }
        if matches!(step.cop, COp::Restart { .. }) {
            match (exec.driver.observe(), reference.driver.observe()) {
                (Ok(observed), Ok(expected)) => {
                    if let Some(diff) = diff_states(&expected, &observed) {
                        return Err(ContinuationError::Diverges(
                            format!("after continuation op #{} (restart): the recovered log differs from a log that never crashed: {diff}", step.idx),
                            exec.cops.clone(),
                        ));
                    }
                }
                (Err(msg), Ok(_)) => return Err(ContinuationError::Diverges(msg, exec.cops.clone())),
                (_, Err(msg)) => return Err(ContinuationError::Undecided(msg)),
            }
        }
    }
    let cops = exec.cops.clone();
    let _ = exec.driver.close();
    let _ = reference.driver.close();
    Ok(cops)
}

impl Property for C02 {
    fn id(&self) -> &'static str {
        "C02"
    }

    fn level(&self) -> &'static str {
        "fault_enumeration"
    }

    fn rule(&self) -> String {
        "generated histories under Always(Flush) / Always(FlushAndFsync) are executed once with the I/O hook recording \
         every OS-level effect (create, set_len, write bytes, fsync, dir-sync, unlink); then crash points are ENUMERATED \
         over that trace: every effect boundary, and inside every write the byte cuts {1,3,6,7,8,len-1}, every frame \
         boundary and header/payload cuts around it, plus generated cuts (all byte cuts when the trace wrote <= 4000 \
         bytes). For each crash point the directory image (effects in program order) is materialised and opened by the \
         real code. Oracle: open is Ok; the observed state equals the state the live log showed (public read API, no model) \
         after the last completed op, or after the in-flight op, or — only if the in-flight op is truncate/delete_queue — the previous state with a prefix of \
         the records that op targets removed from its queue; after EVERY recovery a plain second restart must give the same state; for a sample of crash points a \
         generated continuation history + restart is applied in lock-step to the recovered log and to a freshly built \
         never-crashed log with the same observable state, and outcomes and states must be identical (differential); if recovery itself wrote or unlinked \
         anything, its own trace is crashed again (depth 2) and must recover the same state. evaluations = crash images \
         opened. non-trivial = crash strictly inside an API call (not at a call boundary); distinct = hash(concrete \
         history, crash point)."
            .to_string()
    }

    fn assumptions(&self) -> Vec<String> {
        vec![
            "process-crash model: effects reach the OS in program order; create, set_len and unlink are atomic; a write may be cut at any byte".to_string(),
            "the OS-level write sequence is derived from BufWriter occupancy before/after each write_all and validated against the real directory at the end of every history".to_string(),
            "WAL files of 4 blocks".to_string(),
        ]
    }

    fn cases(&self, tier: Tier) -> u32 {
        match tier {
            Tier::Quick => 1_200,
            Tier::Thorough => 40_000,
        }
    }

    fn max_shrink_iters(&self) -> u32 {
        400
    }

    fn strategy(&self, tier: Tier) -> BoxedStrategy<Case> {
        super::case_strategy_cont(
            &gen_cfg(tier),
            &cont_cfg(),
            vec![Policy::Always { fsync: false }, Policy::Always { fsync: false }, Policy::Always { fsync: true }],
            8,
        )
    }

    fn run(&self, case: &Case, env: &mut Env) -> Result<(), CaseError> {
        let dir = env.scratch.fresh("c02");
        let mut exec = Exec::new(&dir, case.policy)?;
        // model-free snapshots: the state the REAL log shows after each call
        exec.keep_live = true;
        for sop in &case.ops {
            let step = exec.step(sop)?;
            exec.usable_or_skip(&step)?;
        }
        exec.driver.close()?;
        exec.selfcheck_image(&Image::default())?;
        let effects: Vec<Effect> = exec.effects().to_vec();
        let frames = exec.driver.tracer.frames.clone();
        let mut selection = Selection::standard(&case.words);
        selection.only = parse_crash_point(&case.extra);
        let crash_dir = env.scratch.fresh("c02-crash");
        let crash_dir2 = env.scratch.fresh("c02-crash2");
        let reference_dir = env.scratch.fresh("c02-reference");
        let history_hash = hash64(&exec.cops);
        let mut continuations_run = 0u32;
        let replaying = selection.only.is_some();
        let result = for_each_crash_point(&Image::default(), &effects, &frames, &selection, |ctx: &CrashCtx| -> Result<(), CaseError> {
            env.evals(1);
            let mut class = ctx.class;
            let inflight_cop: Option<&COp> = ctx.inflight.and_then(|op| exec.cops.get(op));
            if ctx.inflight == Some(usize::MAX) || matches!(inflight_cop, Some(COp::Restart { .. })) {
                if class != CrashClass::BetweenOps {
                    class = CrashClass::InsideOpen;
                }
            }
            env.class(class.name());
            let extra = |more: Value| {
                let mut extra = json!({"crash": {"k": ctx.point.k, "b": ctx.point.b}, "class": class.name()});
                if let (Some(target), Some(source)) = (extra.as_object_mut(), more.as_object()) {
                    for (key, value) in source {
                        target.insert(key.clone(), value.clone());
                    }
                }
                extra
            };
            let where_ = format!(
                "crash at effect {} byte {} ({}; in-flight op: {}; image {})",
                ctx.point.k,
                ctx.point.b,
                class.name(),
                match (ctx.inflight, inflight_cop) {
                    (Some(usize::MAX), _) => "initial open".to_string(),
                    (Some(op), Some(cop)) => format!("#{op} {}", cop.short()),
                    _ => "none".to_string(),
                },
                ctx.image.describe()
            );
            let recovered = match recover(ctx.image, &crash_dir, case.policy) {
                Ok(recovered) => recovered,
                Err(err) => {
                    let (msg, signature) = err.into_case_error()?;
                    // a zero-length newest file is the signature of a crash between create_new and set_len
                    let zero_len = ctx.image.files.values().last().map(|content| content.is_empty()).unwrap_or(false);
                    let signature = if zero_len { format!("{signature}:zero-length-newest-file") } else { signature.to_string() };
                    return Err(exec.failure(format!("{where_}: {msg}"), &signature, extra(json!({}))));
                }
            };
            let prev = state_after(&exec.live, ctx.last_completed);
            let mut ok = recovered.state == prev;
            let mut matched = "previous";
            if !ok {
                if let Some(op) = ctx.inflight {
                    if op != usize::MAX {
                        if recovered.state == exec.live[op] {
                            ok = true;
                            matched = "in-flight-applied";
                        } else if matches_partial(&prev, &recovered.state, &exec.cops[op]) {
                            ok = true;
                            matched = "partial-truncate-or-delete";
                            env.class("tolerated:partial-truncate-or-delete");
                        }
                    }
                }
            }
            if !ok {
                let diff_prev = diff_states(&prev, &recovered.state).unwrap_or_default();
                let diff_next = ctx
                    .inflight
                    .filter(|op| *op != usize::MAX)
                    .and_then(|op| diff_states(&exec.live[op], &recovered.state))
                    .unwrap_or_default();
                return Err(exec.failure(
                    format!("{where_}: recovered state {} is neither the state of the completed ops ({diff_prev}) nor that with the in-flight op applied ({diff_next})",
                        describe_state(&recovered.state)),
                    "not-a-prefix",
                    extra(json!({})),
                ));
            }
            let _ = matched;
            if class.strictly_inside_op() {
                env.nontrivial(mix(history_hash, hash64(&ctx.point)));
                env.sample(|| json!({"policy": format!("{:?}", case.policy), "ops": ops_sample(&exec.cops), "crash": where_, "recovered": describe_state(&recovered.state)}));
            }
            // depth 2: crash the recovery's own effects
            let recovery_effects: Vec<Effect> = recovered.driver.tracer.effects.clone();
            let recovery_frames = recovered.driver.tracer.frames.clone();
            let recovery_changes = recovery_effects.iter().any(|effect| {
                matches!(effect, Effect::Create { .. } | Effect::SetLen { .. } | Effect::OsWrite { .. } | Effect::Unlink { .. })
            });
            let recovered_state = recovered.state.clone();
            // continuation
            let run_cont = !case.cont.is_empty()
                && (replaying
                    || (class.strictly_inside_op() && continuations_run < 24)
                    || mix(history_hash, hash64(&ctx.point)) % 8 == 0);
            if run_cont {
                continuations_run += 1;
                env.class("continuation-run");
                match run_continuation(recovered, &case.cont, &reference_dir) {
                    Ok(_) => {}
                    Err(ContinuationError::Diverges(msg, cont_cops)) => {
                        return Err(exec.failure(
                            format!("{where_}: recovered log is not fully usable: {msg}"),
                            "continuation-diverges",
                            extra(json!({"cont": cont_cops})),
                        ));
                    }
                    Err(ContinuationError::Undecided(_)) => env.class("continuation-undecided"),
                }
            } else {
                // cheap form of "further restarts behave as on a log that never crashed": a plain second restart of
                // the recovered log must give the same state (done for EVERY crash point)
                let mut recovered = recovered;
                recovered.driver.close()?;
                match recover_dir(&crash_dir, case.policy) {
                    Ok(mut again) => {
                        again.driver.close()?;
                        if again.state != recovered_state {
                            return Err(exec.failure(
                                format!("{where_}: the recovered log changes state on a plain second restart: first recovery {} / after restarting it {}: {}",
                                    describe_state(&recovered_state), describe_state(&again.state), diff_states(&recovered_state, &again.state).unwrap_or_default()),
                                "second-restart-differs",
                                extra(json!({})),
                            ));
                        }
                    }
                    Err(err) => {
                        let (msg, signature) = err.into_case_error()?;
                        return Err(exec.failure(format!("{where_}: restarting the recovered log: {msg}"), signature, extra(json!({}))));
                    }
                }
            }
            if recovery_changes {
                env.class("depth2:recovery-wrote-or-unlinked");
                let mut selection2 = Selection::standard(&case.words);
                selection2.exhaustive_below = 64;
                selection2.generated_cuts = 1;
                for_each_crash_point(ctx.image, &recovery_effects, &recovery_frames, &selection2, |ctx2: &CrashCtx| -> Result<(), CaseError> {
                    env.evals(1);
                    env.class("crash:second-crash-during-recovery");
                    let where2 = format!("{where_}; second crash during recovery at effect {} byte {}", ctx2.point.k, ctx2.point.b);
                    match recover(ctx2.image, &crash_dir2, case.policy) {
                        Ok(mut second) => {
                            second.driver.close()?;
                            if second.state != recovered_state {
                                return Err(exec.failure(
                                    format!("{where2}: state {} differs from the state of the uninterrupted recovery: {}",
                                        describe_state(&second.state), diff_states(&recovered_state, &second.state).unwrap_or_default()),
                                    "second-crash-state-differs",
                                    extra(json!({"crash2": {"k": ctx2.point.k, "b": ctx2.point.b}})),
                                ));
                            }
                            env.nontrivial(mix(mix(history_hash, hash64(&ctx.point)), hash64(&ctx2.point)));
                            Ok(())
                        }
                        Err(err) => {
                            let (msg, signature) = err.into_case_error()?;
                            Err(exec.failure(format!("{where2}: {msg}"), signature, extra(json!({"crash2": {"k": ctx2.point.k, "b": ctx2.point.b}}))))
                        }
                    }
                })?;
            }
            Ok(())
        });
        result?;
        env.scratch.remove(&dir);
        env.scratch.remove(&crash_dir);
        env.scratch.remove(&crash_dir2);
        Ok(())
    }
}
