//! One module per property.

use proptest::prelude::*;

use crate::case::Case;
use crate::ops::{history_strategy, GenCfg, Policy};
use crate::runner::Property;

pub mod c01;
pub mod c05;
pub mod c06;
pub mod c13;
pub mod c14;
pub mod c15;
pub mod c16;
pub mod c17;
pub mod c18;

/// Case strategy: fixed or generated policy, history from `cfg`, `n_words` generated integers.
pub fn case_strategy(cfg: &GenCfg, policies: Vec<Policy>, n_words: usize) -> BoxedStrategy<Case> {
    let policy = proptest::sample::select(policies);
    (
        policy,
        history_strategy(cfg),
        proptest::collection::vec(any::<u32>(), n_words..=n_words),
    )
        .prop_map(|(policy, ops, words)| Case {
            policy,
            ops,
            words,
            extra: None,
        })
        .boxed()
}

pub fn all() -> Vec<Box<dyn Property>> {
    vec![
        Box::new(c01::C01),
        Box::new(c05::C05),
        Box::new(c06::C06),
        Box::new(c13::C13),
        Box::new(c14::C14),
        Box::new(c15::C15),
        Box::new(c16::C16),
        Box::new(c17::C17),
        Box::new(c18::C18),
    ]
}

pub fn by_id(id: &str) -> Option<Box<dyn Property>> {
    all().into_iter().find(|property| property.id() == id)
}
