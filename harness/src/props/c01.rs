//! C01 — a clean restart reproduces the exact logical state.

use proptest::strategy::BoxedStrategy;
use serde_json::json;

use crate::case::{ops_sample, Case, CaseError, Env, Tier};
use crate::exec::Exec;
use crate::iotrace::{Effect, Image};
use crate::model::Outcome;
use crate::ops::{COp, GenCfg, Policy, QName, SOp};
use crate::runner::Property;
use crate::util::hash64;

pub struct C01;

pub fn gen_cfg(tier: Tier) -> GenCfg {
    let mut cfg = GenCfg::default();
    cfg.max_ops = if tier == Tier::Quick { 60 } else { 150 };
    cfg.w_restart = 9;
    cfg.w_create = 7;
    cfg.w_delete = 4;
    cfg.w_append = 48;
    cfg.w_truncate = 28;
    cfg.w_tr_last = 40;
    cfg.w_tr_mid = 30;
    cfg.w_tr_ahead = 14;
    cfg.w_len.fileish = 16;
    cfg.w_len.blockish = 20;
    cfg.restart_policies = Policy::ALL.to_vec();
    cfg
}

/// Runs the history with a full state comparison before every drop and after every open.
/// Returns classification flags. Shared with other properties.
pub struct RestartFlags {
    pub restarts: u64,
    pub restart_after_unlink: bool,
    pub restart_with_empty_advanced_queue: bool,
    pub restart_after_recreate: bool,
    pub unlinks: u64,
    pub rollovers: u64,
}

/// Content-dependent behaviour (deterministic, sharded; shared with C18): a record whose payload is crafted so that the
/// checksum field of its frame header has a chosen value (0, values with leading / trailing zero bytes, all ones —
/// each has probability 2^-32 per frame with ordinary payloads, i.e. it does happen in a WAL that lives long enough);
/// records of another queue are appended after it and the log is restarted: everything must still be there.
pub fn crafted_checksum_campaign(env: &mut Env, shard: u32, shards: u32) -> Result<(), CaseError> {
    use crate::ops::{Pay, QName};
    const TARGETS: [u32; 8] = [0, 1, 0x0100_0000, 0x0000_00FF, 0xFF00_0000, 0xFFFF_FFFF, 0x0000_FFFF, 0x0001_0000];
    for (variant, target) in TARGETS.iter().enumerate() {
        for warmup in 0..2u32 {
            let cell = variant as u32 * 2 + warmup;
            if cell % shards != shard {
                continue;
            }
            let dir = env.scratch.fresh("crafted-crc");
            let mut exec = Exec::new(&dir, Policy::DEFAULT)?;
            exec.step_concrete(COp::Create { q: QName::plain("a") })?;
            exec.step_concrete(COp::Create { q: QName::plain("b") })?;
            exec.step_concrete(COp::Append { q: QName::plain("b"), pos: None, batch: vec![Pay { len: 20, seed: 1, style: 0 }] })?;
            if warmup == 1 {
                exec.step_concrete(COp::Append { q: QName::plain("a"), pos: None, batch: vec![Pay { len: 700, seed: 2, style: 0 }] })?;
            }
            // the crafted record of queue a: single-frame entry = tag 4 | position | name len | "a" | position | len | payload
            let position = exec.model.queues.get("a").map(|queue| queue.next).unwrap_or(0);
            let body_len = 60usize;
            let mut payload = crate::util::fill(0xC4C ^ cell as u64, body_len, 0);
            let mut crc_input: Vec<u8> = vec![1u8]; // frame type Full
            crc_input.push(4);
            crc_input.extend_from_slice(&position.to_le_bytes());
            crc_input.extend_from_slice(&1u16.to_le_bytes());
            crc_input.extend_from_slice(b"a");
            crc_input.extend_from_slice(&position.to_le_bytes());
            crc_input.extend_from_slice(&((body_len + 4) as u32).to_le_bytes());
            crc_input.extend_from_slice(&payload);
            let Some(suffix) = crate::util::forge_crc_suffix(&crc_input, *target) else {
                return Err(CaseError::Engine("cannot forge a CRC suffix".to_string()));
            };
            payload.extend_from_slice(&suffix);
            let frames_before = exec.driver.tracer.frames.len();
            {
                let log = exec.driver.log.as_mut().unwrap();
                exec.driver.tracer.begin_op(3000);
                log.append_record("a", None, &payload[..]).map_err(|err| CaseError::Engine(format!("crafted append: {err}")))?;
                exec.driver.tracer.feed(mrecordlog::verif_hooks::take_events()).map_err(CaseError::Engine)?;
                exec.driver.tracer.end_op(3000);
            }
            // self-check: the frame really carries the chosen checksum (read back from the bytes the writer was handed)
            let crafted_frames = exec.driver.tracer.frames[frames_before..].len();
            let frame = exec.driver.tracer.frames[frames_before..].first().cloned();
            let Some(frame) = frame else {
                return Err(CaseError::Engine("crafted record produced no frame".to_string()));
            };
            // records of the other queue right behind the crafted frame, in the same session
            exec.step_concrete(COp::Append { q: QName::plain("b"), pos: None, batch: vec![Pay { len: 25, seed: 6, style: 0 }] })?;
            let before_first = exec.driver.observe().map_err(|_| CaseError::Skip("live-state-unobservable".to_string()))?;
            exec.driver.close()?;
            let on_disk = std::fs::read(dir.join(&frame.name)).map_err(|err| CaseError::Engine(format!("read wal: {err}")))?;
            let header = &on_disk[frame.off as usize..frame.off as usize + 7];
            if header[..4] != target.to_le_bytes() || crafted_frames != 1 {
                env.class("crafted-crc:layout-skipped");
                continue;
            }
            // first restart: the crafted record and what was appended behind it must all come back
            let what = format!("a record of queue \"a\" whose frame header carries the checksum {target:#010x} (crafted payload), then records of queue \"b\", then a restart");
            let step = exec.step_concrete(COp::Restart { policy: None })?;
            env.evals(1);
            if step.real.outcome != Outcome::Restarted {
                return Err(exec.failure(format!("{what}: re-opening failed: {:?}", step.real.outcome), "crafted-checksum-reopen-failed", json!({"crafted_crc": cell})));
            }
            let after_first = exec.driver.observe().map_err(|msg| exec.failure(format!("{what}: {msg}"), "observe-failed-after-restart", json!({"crafted_crc": cell})))?;
            if let Some(diff) = crate::model::diff_states(&before_first, &after_first) {
                return Err(exec.failure(format!("{what}: the state after re-opening differs from the state before the drop: {diff}"), "crafted-checksum-changes-state", json!({"crafted_crc": cell})));
            }
            // more records of the other queue, then a second restart
            exec.step_concrete(COp::Append { q: QName::plain("b"), pos: None, batch: vec![Pay { len: 30, seed: 3, style: 0 }] })?;
            exec.step_concrete(COp::Append { q: QName::plain("b"), pos: None, batch: vec![Pay { len: 40, seed: 4, style: 0 }] })?;
            let before = exec.driver.observe().map_err(|_| CaseError::Skip("live-state-unobservable".to_string()))?;
            let step = exec.step_concrete(COp::Restart { policy: None })?;
            env.evals(1);
            env.class("crafted-crc:restart-checked");
            if step.real.outcome != Outcome::Restarted {
                return Err(exec.failure(format!("{what}: re-opening failed: {:?}", step.real.outcome), "crafted-checksum-reopen-failed", json!({"crafted_crc": cell})));
            }
            let after = exec.driver.observe().map_err(|msg| exec.failure(format!("{what}: {msg}"), "observe-failed-after-restart", json!({"crafted_crc": cell})))?;
            if let Some(diff) = crate::model::diff_states(&before, &after) {
                return Err(exec.failure(format!("{what}: the state after re-opening differs from the state before the drop: {diff}"), "crafted-checksum-changes-state", json!({"crafted_crc": cell})));
            }
            env.nontrivial(hash64(&("crafted-crc", cell)));
            exec.driver.close()?;
            env.scratch.remove(&dir);
        }
    }
    Ok(())
}

impl Property for C01 {
    fn id(&self) -> &'static str {
        "C01"
    }

    fn rule(&self) -> String {
        "stateful model-based: generated histories (all call shapes, payloads 0..320 KiB so that 128 KiB WAL \
         files roll over and are garbage-collected, future truncations, delete+re-create, unusual names, any \
         persist policy, changed at restarts) with Restart ops at generated points and one forced final restart; \
         oracle (model-free): observe(before drop) == observe(after open) (queues, positions, payload bytes, next \
         position, through the public read API), re-open must succeed, then append(None) on every queue must return \
         last_position+1 as seen after the restart. Plus a deterministic content-dependent campaign: records crafted so that their frame \
         header carries checksum 0, 1, 0x01000000, 0xFF, 0xFF000000, 0xFFFFFFFF, ..., followed by other queues' records and a \
         restart. The reference model only resolves the generated selectors; a live \
         call that diverges from it makes the case 'skipped' (that is C05's concern), never a C01 violation. \
         evaluations = restarts checked. non-trivial = history with a restart that happens after >= 1 WAL file \
         was unlinked, or while a queue is empty with next > 0, or after a delete+re-create; distinct = hash of \
         the concrete op list."
            .to_string()
    }

    fn assumptions(&self) -> Vec<String> {
        vec![
            "reference model encodes the documented semantics (DESIGN.md sections 2 and 6)".to_string(),
            "WAL files of 4 blocks (hook geometry); thorough also 2 and 8".to_string(),
            "positions < 2^62, names <= 65535 bytes, payload <= 320 KiB".to_string(),
        ]
    }

    fn cases(&self, tier: Tier) -> u32 {
        match tier {
            Tier::Quick => 30_000,
            Tier::Thorough => 400_000,
        }
    }

    fn strategy(&self, tier: Tier) -> BoxedStrategy<Case> {
        super::case_strategy(&gen_cfg(tier), Policy::ALL.to_vec(), 1)
    }

    fn fixed_work(&self, env: &mut Env, shard: u32, shards: u32) -> Result<(), CaseError> {
        crafted_checksum_campaign(env, shard, shards)
    }

    fn run(&self, case: &Case, env: &mut Env) -> Result<(), CaseError> {
        if let Some(cell) = case.extra.as_ref().and_then(|extra| extra.get("crafted_crc")).and_then(|value| value.as_u64()) {
            return crafted_checksum_campaign(env, cell as u32, 16);
        }
        let dir = env.scratch.fresh("c01");
        let mut exec = Exec::new(&dir, case.policy)?;
        let mut flags = RestartFlags {
            restarts: 0,
            restart_after_unlink: false,
            restart_with_empty_advanced_queue: false,
            restart_after_recreate: false,
            unlinks: 0,
            rollovers: 0,
        };
        let mut deleted_names: std::collections::BTreeSet<String> = Default::default();
        let mut recreated = false;
        let mut ops: Vec<SOp> = case.ops.clone();
        // forced final restart
        ops.push(SOp::Restart { policy: None });
        for sop in &ops {
            let cop = exec.resolve(sop);
            let is_restart = matches!(cop, COp::Restart { .. });
            let before = if is_restart {
                // state right before the drop, as the real log shows it (no model involved)
                match exec.driver.observe() {
                    Ok(state) => Some(state),
                    Err(_) => return Err(CaseError::Skip("live-state-unobservable".to_string())),
                }
            } else {
                None
            };
            let step = exec.step_concrete(cop)?;
            if !is_restart {
                // live calls that diverge from the model are C05's concern
                exec.conform_or_skip(&step)?;
            }
            for effect in &exec.effects()[step.effects.clone()] {
                match effect {
                    Effect::Unlink { .. } => flags.unlinks += 1,
                    Effect::Create { .. } => flags.rollovers += 1,
                    _ => {}
                }
            }
            match (&step.cop, &step.expected) {
                (COp::Delete { q }, Outcome::Deleted) => {
                    deleted_names.insert(q.text());
                }
                (COp::Create { q }, Outcome::Created) => {
                    if deleted_names.contains(&q.text()) {
                        recreated = true;
                    }
                }
                _ => {}
            }
            if is_restart {
                flags.restarts += 1;
                env.evals(1);
                if step.real.outcome != Outcome::Restarted {
                    return Err(exec.failure(
                        format!("op #{} restart: re-opening the cleanly dropped log failed: {:?}", step.idx, step.real.outcome),
                        "reopen-failed",
                        json!({}),
                    ));
                }
                let after = exec.driver.observe().map_err(|msg| {
                    exec.failure(format!("op #{} restart: {msg}", step.idx), "observe-failed-after-restart", json!({}))
                })?;
                if let Some(diff) = crate::model::diff_states(before.as_ref().unwrap(), &after) {
                    return Err(exec.failure(
                        format!("op #{} restart: the state after re-opening differs from the state before the drop: {diff}", step.idx),
                        "restart-changes-state",
                        json!({}),
                    ));
                }
                if flags.unlinks > 0 {
                    flags.restart_after_unlink = true;
                }
                if recreated {
                    flags.restart_after_recreate = true;
                }
                if exec
                    .model
                    .queues
                    .values()
                    .any(|queue| queue.recs.is_empty() && queue.next > 0)
                {
                    flags.restart_with_empty_advanced_queue = true;
                }
            }
        }
        // harness self-check: trace-derived image == directory
        exec.driver.close()?;
        exec.selfcheck_image(&Image::default())?;
        // probe: append(None) on every queue returns the model's next position
        let names: Vec<QName> = exec.model.names.values().cloned().collect();
        let step = exec.step_concrete(COp::Restart { policy: None })?;
        exec.usable_or_skip(&step)?;
        let observed = exec.driver.observe().map_err(|_| CaseError::Skip("live-state-unobservable".to_string()))?;
        for name in names {
            // the next position as the real log shows it after the restart
            let Some(next) = observed.get(&name.text()).map(|queue| queue.next) else { continue };
            let step = exec.step_concrete(COp::Append {
                q: name.clone(),
                pos: None,
                batch: vec![crate::ops::Pay {
                    len: 5,
                    seed: next,
                    style: 0,
                }],
            })?;
            if step.real.outcome != (Outcome::Appended { last: Some(next) }) {
                return Err(exec.failure(
                    format!(
                        "append(None) on {:?} after the final restart returned {:?}, expected position {next}",
                        name.text(),
                        step.real.outcome
                    ),
                    "probe-append-position",
                    json!({}),
                ));
            }
        }
        env.class_n("restarts", flags.restarts);
        env.class_n("files-unlinked", flags.unlinks);
        env.class_n("files-created", flags.rollovers);
        if flags.restart_after_unlink {
            env.class("case:restart-after-gc");
        }
        if flags.restart_with_empty_advanced_queue {
            env.class("case:restart-with-empty-advanced-queue");
        }
        if flags.restart_after_recreate {
            env.class("case:restart-after-delete-recreate");
        }
        if flags.restart_after_unlink
            || flags.restart_with_empty_advanced_queue
            || flags.restart_after_recreate
        {
            env.nontrivial(hash64(&exec.cops));
            env.sample(|| {
                json!({"policy": format!("{:?}", case.policy), "ops": ops_sample(&exec.cops),
                       "unlinks": flags.unlinks, "restarts": flags.restarts})
            });
        }
        exec.driver.close()?;
        env.scratch.remove(&dir);
        Ok(())
    }
}
