//! C08 — damaged WAL bytes never surface as records that were not appended.

use std::collections::BTreeMap;

use proptest::strategy::BoxedStrategy;
use serde_json::json;

use crate::case::{ops_sample, Case, CaseError, Env, Failure, Tier};
use crate::damage::{apply, craft_batch, craft_entry, craft_frame, live_frames, random_inplace_damage, to_hex, written_extent, CDamage, Extras};
use crate::exec::Exec;
use crate::iotrace::Image;
use crate::model::{describe_state, Bytes, State};
use crate::ops::{COp, GenCfg, Pay, Policy, QName, SOp};
use crate::recover::{recover, RecoverError};
use crate::runner::Property;
use crate::util::{hash64, mix, splitmix, FRAME_HEADER};

pub struct C08;

fn gen_cfg(tier: Tier) -> GenCfg {
    let mut cfg = super::c01::gen_cfg(tier);
    cfg.max_ops = if tier == Tier::Quick { 36 } else { 60 };
    cfg.restart_policies = vec![];
    cfg.w_restart = 5;
    cfg.w_delete = 5;
    cfg.w_len.huge = 0;
    cfg.w_recreate_motif = 12;
    cfg.w_aligned_batch = 14;
    cfg.w_len.fileish = 8;
    cfg
}

/// Every (queue, position) -> payloads ever appended there.
pub type AppendedSet = BTreeMap<(String, u64), Vec<Bytes>>;

pub fn appended_set(appended: &[(String, u64, Bytes)]) -> AppendedSet {
    let mut set: AppendedSet = BTreeMap::new();
    for (name, pos, bytes) in appended {
        set.entry((name.clone(), *pos)).or_default().push(bytes.clone());
    }
    set
}

/// Oracle: every recovered record was appended; positions strictly increase.
pub fn check_no_phantom(set: &AppendedSet, got: &State) -> Result<(), (String, String, u64, Bytes)> {
    for (name, queue) in got {
        let mut previous: Option<u64> = None;
        for (pos, bytes) in &queue.recs {
            if previous.map_or(false, |prev| prev >= *pos) {
                return Err((format!("queue {name:?}: positions are not strictly increasing ({previous:?} then {pos})"), name.clone(), *pos, bytes.clone()));
            }
            previous = Some(*pos);
            let known = set.get(&(name.clone(), *pos)).map_or(false, |list| list.iter().any(|payload| payload == bytes));
            if !known {
                let preview: Vec<u8> = bytes.iter().take(16).copied().collect();
                return Err((
                    format!("record {name:?}@{pos} ({} bytes, starts with {:02x?}) was recovered but never appended", bytes.len(), preview),
                    name.clone(),
                    *pos,
                    bytes.clone(),
                ));
            }
        }
    }
    Ok(())
}

const DECOY_POSITION: u64 = 999;
const DECOY_PAYLOAD: &[u8] = b"EVIL-never-appended";

impl C08 {
    /// Mode C of the decoy campaign — no damage at all: a record of queue `b` straddles a WAL file boundary so that the
    /// part that lands in the next file is exactly the byte image of an entry addressed to queue `a`; `b` is then
    /// truncated, the first file is garbage-collected, and the log is restarted. The WAL now BEGINS with the orphan
    /// Last frame of a dead record; it must be dropped, never delivered as an entry.
    pub fn orphan_tail_campaign(&self, env: &mut Env, shard: u32, shards: u32) -> Result<(), CaseError> {
        let variants: u32 = if env.tier == Tier::Quick { 16 } else { 256 };
        let file_bytes = crate::util::file_bytes();
        for variant in 0..variants {
            if variant % shards != shard {
                continue;
            }
            let mut rng = 0x0A11_u64 ^ ((variant as u64) << 9);
            let dir = env.scratch.fresh("c08-orphan");
            let mut exec = Exec::new(&dir, Policy::DEFAULT)?;
            exec.keep_appended = true;
            let victim = ["a", "victim-queue"][(splitmix(&mut rng) % 2) as usize];
            exec.step_concrete(COp::Create { q: QName::plain(victim) })?;
            exec.step_concrete(COp::Create { q: QName::plain("b") })?;
            // the victim has used and truncated positions 0 and 1 (the decoy claims one of them), and will hold a later
            // record written AFTER the host record, so that no position entry resets it at the next GC
            exec.step_concrete(COp::Append { q: QName::plain(victim), pos: None, batch: vec![Pay { len: 20, seed: 3, style: 0 }, Pay { len: 30, seed: 4, style: 0 }] })?;
            exec.step_concrete(COp::Truncate { q: QName::plain(victim), pos: 1 })?;
            let decoy_position = splitmix(&mut rng) % 2;
            // bring the cursor into the last block of the current file
            let target = file_bytes - crate::util::BLOCK + 200 + (splitmix(&mut rng) % 20_000) as usize;
            let cursor = exec.driver.global_cursor() as usize % file_bytes;
            if cursor + 64 < target {
                let mut len = target - cursor;
                // subtract the framing: 7 bytes per block crossed + entry header (11 + 1 + 12)
                let blocks = len / crate::util::BLOCK + 2;
                len = len.saturating_sub(blocks * FRAME_HEADER + 24);
                exec.step_concrete(COp::Append { q: QName::plain("b"), pos: None, batch: vec![Pay { len: len as u32, seed: 1, style: 0 }] })?;
            }
            let cursor = exec.driver.global_cursor() as usize % file_bytes;
            let room = file_bytes - cursor;
            if cursor < file_bytes - crate::util::BLOCK || room < FRAME_HEADER + 24 + 8 {
                env.class("decoy:orphan-alignment-skipped");
                continue;
            }
            let decoy_entry = craft_entry(4, decoy_position, victim.as_bytes(), &craft_batch(&[(decoy_position, DECOY_PAYLOAD.to_vec())]));
            // host entry = 11 + "b" + 12 + filler + image; its first frame fills the file exactly
            let filler_len = room - FRAME_HEADER - (11 + 1 + 12);
            let mut host = crate::util::fill(splitmix(&mut rng), filler_len, 0);
            host.extend_from_slice(&decoy_entry);
            let host_pos = exec.model.queues.get("b").map(|queue| queue.next).unwrap_or(0);
            let frames_before = exec.driver.tracer.frames.len();
            {
                let log = exec.driver.log.as_mut().unwrap();
                exec.driver.tracer.begin_op(2000);
                log.append_record("b", None, &host[..]).map_err(|err| CaseError::Engine(format!("host append: {err}")))?;
                exec.driver.tracer.feed(mrecordlog::verif_hooks::take_events()).map_err(CaseError::Engine)?;
                exec.driver.tracer.end_op(2000);
            }
            let host_frames: Vec<_> = exec.driver.tracer.frames[frames_before..].to_vec();
            let laid_out = host_frames.len() == 2 && host_frames[0].name != host_frames[1].name && host_frames[1].off == 0 && host_frames[1].payload_len == decoy_entry.len();
            if !laid_out {
                env.class("decoy:orphan-layout-skipped");
                continue;
            }
            // the victim's live record, in the new file
            exec.step_concrete(COp::Append { q: QName::plain(victim), pos: None, batch: vec![Pay { len: 40, seed: 5, style: 0 }] })?;
            // truncate b entirely: the first file becomes collectable, GC unlinks it
            {
                let log = exec.driver.log.as_mut().unwrap();
                log.truncate("b", ..=host_pos).map_err(|err| CaseError::Engine(format!("truncate: {err}")))?;
                let _ = mrecordlog::verif_hooks::take_events();
            }
            let first_file_gone = !dir.join(&host_frames[0].name).exists();
            // clean restart
            let log = exec.driver.log.take();
            drop(log);
            let _ = mrecordlog::verif_hooks::take_events();
            env.evals(1);
            env.class("decoy:orphan-tail-image-opened");
            if first_file_gone {
                env.class("decoy:orphan-tail-first-file-collected");
            }
            let reopened = match crate::recover::recover_dir(&dir, Policy::DEFAULT) {
                Ok(mut recovered) => {
                    recovered.driver.close()?;
                    recovered.state
                }
                Err(RecoverError::Engine(msg)) => return Err(CaseError::Engine(msg)),
                Err(_) => continue,
            };
            if let Some(queue) = reopened.get(victim) {
                if let Some((pos, bytes)) = queue.recs.iter().find(|(pos, _)| *pos < 2) {
                    return Err(CaseError::Violation(Box::new(Failure {
                        msg: format!("orphan-tail campaign variant {variant}: a record of queue \"b\" straddled a file boundary, its tail being the byte image of an entry for queue {victim:?}; after truncating \"b\", GC of the first file and a clean restart, queue {victim:?} returns a record at position {pos} ({} bytes) that was never appended", bytes.len()),
                        signature: "phantom-record-from-orphan-tail".to_string(),
                        policy: Policy::DEFAULT,
                        ops: exec.cops.clone(),
                        extra: json!({"orphan_variant": variant}),
                    })));
                }
            }
            env.nontrivial(mix(0x0A11, variant as u64));
            env.scratch.remove(&dir);
        }
        Ok(())
    }

    /// Mode D of the decoy campaign — zero-fill of the TAIL of a record, and the history goes on: the last entry written
    /// crosses a block boundary (First frame up to the block end, Last frame of L bytes at the start of the next block);
    /// its Last frame is zero-filled in place (a lost sector write; file length unchanged). `open` sees the orphan First
    /// frame, then the end of the log, and the writer resumes right behind the orphan head. One entry whose serialized
    /// size is exactly L is then appended (to the same queue or to another one) and the log restarted: the reader must
    /// drop the orphan head when the new entry starts, never glue the new entry's bytes onto it.
    pub fn orphan_head_campaign(&self, env: &mut Env, shard: u32, shards: u32) -> Result<(), CaseError> {
        let variants: u32 = if env.tier == Tier::Quick { 48 } else { 768 };
        for variant in 0..variants {
            if variant % shards != shard {
                continue;
            }
            let mut rng = 0x0D0D_u64 ^ ((variant as u64) << 9);
            let dir = env.scratch.fresh("c08-head");
            let crash_dir = env.scratch.fresh("c08-head-open");
            let mut exec = Exec::new(&dir, Policy::DEFAULT)?;
            exec.keep_appended = true;
            let queue = ["q", "host-queue"][(splitmix(&mut rng) % 2) as usize];
            let other = "p";
            exec.step_concrete(COp::Create { q: QName::plain(queue) })?;
            exec.step_concrete(COp::Create { q: QName::plain(other) })?;
            let warmup = splitmix(&mut rng) % 3;
            for round in 0..warmup {
                exec.step_concrete(COp::Append { q: QName::plain(queue), pos: None, batch: vec![Pay { len: 7 + (splitmix(&mut rng) % 5000) as u32, seed: round, style: 0 }] })?;
            }
            if splitmix(&mut rng) % 2 == 0 {
                exec.step_concrete(COp::Append { q: QName::plain(other), pos: None, batch: vec![Pay { len: 12, seed: 77, style: 0 }] })?;
            }
            // the completing entry goes to the host's own queue or to the other queue
            let target = if variant % 3 == 1 { other } else { queue };
            let overhead = 11 + target.len() + 12;
            let tail_len = overhead + (splitmix(&mut rng) % 9000) as usize;
            // host batch: optionally one small complete record first, then the record cut by the block end
            let two_records = variant % 2 == 1;
            let first_small: Vec<u8> = crate::util::fill(splitmix(&mut rng), 5 + (splitmix(&mut rng) % 40) as usize, 0);
            let cursor = exec.driver.global_cursor() as usize % crate::util::BLOCK;
            let remaining = crate::util::BLOCK - cursor;
            let fixed = 11 + queue.len() + 12 + if two_records { 12 + first_small.len() } else { 0 };
            if remaining < FRAME_HEADER + fixed + 1 {
                env.class("decoy:orphan-head-alignment-skipped");
                continue;
            }
            let head_len = remaining - FRAME_HEADER - fixed;
            let big = crate::util::fill(splitmix(&mut rng), head_len + tail_len, 0);
            let host_pos = exec.model.queues.get(queue).map(|state| state.next).unwrap_or(0);
            let frames_before = exec.driver.tracer.frames.len();
            {
                let log = exec.driver.log.as_mut().unwrap();
                exec.driver.tracer.begin_op(3000);
                let res = if two_records {
                    log.append_records(queue, None, [&first_small[..], &big[..]].into_iter())
                } else {
                    log.append_records(queue, None, std::iter::once(&big[..]))
                };
                res.map_err(|err| CaseError::Engine(format!("host append: {err}")))?;
                exec.driver.tracer.feed(mrecordlog::verif_hooks::take_events()).map_err(CaseError::Engine)?;
                exec.driver.tracer.end_op(3000);
            }
            let mut set = appended_set(&exec.appended);
            if two_records {
                set.entry((queue.to_string(), host_pos)).or_default().push(std::rc::Rc::from(&first_small[..]));
                set.entry((queue.to_string(), host_pos + 1)).or_default().push(std::rc::Rc::from(&big[..]));
            } else {
                set.entry((queue.to_string(), host_pos)).or_default().push(std::rc::Rc::from(&big[..]));
            }
            exec.driver.close()?;
            let host_frames: Vec<_> = exec.driver.tracer.frames[frames_before..].iter().filter(|frame| frame.op == 3000).cloned().collect();
            let laid_out = host_frames.len() == 2
                && host_frames[1].payload_len == tail_len
                && host_frames[1].off as usize % crate::util::BLOCK == 0
                && host_frames[0].name == host_frames[1].name;
            if !laid_out {
                env.class("decoy:orphan-head-layout-skipped");
                continue;
            }
            let image = Image::from_dir(&dir).map_err(|err| CaseError::Engine(format!("read dir: {err}")))?;
            let last = &host_frames[1];
            let damage = CDamage::Fill { name: last.name.clone(), off: last.off, len: (FRAME_HEADER + tail_len) as u64, byte: 0 };
            let mut damaged = image.clone();
            apply(&mut damaged, &mut Extras::default(), &damage);
            env.evals(1);
            env.class("decoy:orphan-head-image-opened");
            let fail = |msg: String, exec: &Exec| {
                CaseError::Violation(Box::new(Failure {
                    msg,
                    signature: "phantom-record-from-orphan-head".to_string(),
                    policy: Policy::DEFAULT,
                    ops: exec.cops.clone(),
                    extra: json!({"orphan_head_variant": variant}),
                }))
            };
            let mut recovered = match recover(&damaged, &crash_dir, Policy::DEFAULT) {
                Ok(recovered) => recovered,
                Err(RecoverError::Engine(msg)) => return Err(CaseError::Engine(msg)),
                Err(_) => continue,
            };
            if let Err((msg, ..)) = check_no_phantom(&set, &recovered.state) {
                recovered.driver.close()?;
                return Err(fail(format!("orphan-head campaign variant {variant}: the {tail_len}-byte Last frame of the last record (queue {queue:?}) zero-filled in place: {msg}"), &exec));
            }
            // the history goes on, on the damaged log
            let filler = crate::util::fill(splitmix(&mut rng), tail_len - overhead, 0);
            let appended = {
                let log = recovered.driver.log.as_mut().unwrap();
                crate::util::guarded(|| log.append_record(target, None, &filler[..]).map(|outcome| outcome.last_position).map_err(|err| err.to_string()))
            };
            let _ = recovered.driver.tracer.feed(mrecordlog::verif_hooks::take_events());
            recovered.driver.close()?;
            let Ok(Ok(Some(filler_pos))) = appended else {
                env.class("decoy:orphan-head-append-failed-skipped");
                continue;
            };
            set.entry((target.to_string(), filler_pos)).or_default().push(std::rc::Rc::from(&filler[..]));
            env.evals(1);
            let state = match crate::recover::recover_dir(&crash_dir, Policy::DEFAULT) {
                Ok(mut second) => {
                    second.driver.close()?;
                    second.state
                }
                Err(RecoverError::Engine(msg)) => return Err(CaseError::Engine(msg)),
                Err(_) => continue,
            };
            env.class("decoy:orphan-head-completed-and-reopened");
            if let Err((msg, ..)) = check_no_phantom(&set, &state) {
                return Err(fail(
                    format!("orphan-head campaign variant {variant}: the {tail_len}-byte Last frame of the last record (queue {queue:?}, position {}) zero-filled in place; open succeeded; an entry of exactly {tail_len} serialized bytes was then appended to {target:?} and the log restarted: {msg}", host_pos + two_records as u64),
                    &exec,
                ));
            }
            env.nontrivial(mix(0x0D0D, variant as u64));
            env.scratch.remove(&dir);
            env.scratch.remove(&crash_dir);
        }
        Ok(())
    }
}

impl Property for C08 {
    fn id(&self) -> &'static str {
        "C08"
    }

    fn level(&self) -> &'static str {
        "fault_enumeration"
    }

    fn rule(&self) -> String {
        "generated histories (restarts, GC, delete / re-create) are run to a clean WAL image; per history 12 damaged images \
         are derived, each by 1..4 in-place damage operations with file lengths unchanged: unaimed (bit flip, random run \
         1..64 B, zero run 1 B..2 blocks, whole-block garbage; mostly inside the written extent) and aimed at a generated \
         frame's crc / len (+-1, 0, 0xFFFF, block end, generated) / type (0..5, 0xFF) / payload bytes. Oracle: if open \
         returns Ok, every recovered (queue, position, payload) is one of the records ever appended to a queue of that \
         name and positions per queue strictly increase; Err is acceptable. Payloads never embed CRC-valid frames in this \
         campaign (excluded by construction). A separate, counted DECOY campaign appends payloads that embed a CRC-valid \
         frame and overwrites the host frame's len field so that the reader resynchronises on it (known finding \
         decoy-resync; any other phantom in that campaign is a violation); its mode B re-types the Last frame of a host record \
         whose continuation frame is the raw image of an entry, its mode C (no damage) lets a record straddle a file boundary \
         with such an image as its tail, truncates it, lets GC remove the first file and restarts: the orphan tail at the start \
         of the WAL must not be delivered, its mode D zero-fills the Last frame of the last record (which starts a block), opens, \
         appends one entry of exactly the lost frame's size and restarts: the orphan head must be dropped, not completed by \
         the new entry's bytes. evaluations = damaged images opened. \
         non-trivial = damage changed bytes inside the written extent, open returned Ok and >= 1 record was recovered; \
         distinct = hash(history, damage list)."
            .to_string()
    }

    fn assumptions(&self) -> Vec<String> {
        vec![
            "up to a CRC-32 collision (random damage does not search for collisions)".to_string(),
            "payload generators (xorshift / zeros / 0xFF / short period) never contain a CRC-valid frame; the decoy campaign covers that shape separately".to_string(),
        ]
    }

    fn cases(&self, tier: Tier) -> u32 {
        match tier {
            Tier::Quick => 12_000,
            Tier::Thorough => 500_000,
        }
    }

    fn max_shrink_iters(&self) -> u32 {
        400
    }

    fn strategy(&self, tier: Tier) -> BoxedStrategy<Case> {
        super::case_strategy(&gen_cfg(tier), vec![Policy::DEFAULT, Policy::DEFAULT, Policy::DoNothing], 6)
    }

    fn extra_coverage(&self, stats: &crate::case::Stats) -> serde_json::Value {
        json!({
            "decoy_campaign_images": stats.classes.get("decoy:image-opened").copied().unwrap_or(0),
            "decoy_campaign_phantoms_matching_the_decoy": stats.known_hits.get("decoy-resync").copied().unwrap_or(0),
        })
    }

    /// Decoy campaign (deterministic, sharded): the known finding lives here and only here.
    fn fixed_work(&self, env: &mut Env, shard: u32, shards: u32) -> Result<(), CaseError> {
        self.orphan_tail_campaign(env, shard, shards)?;
        self.orphan_head_campaign(env, shard, shards)?;
        let variants: u32 = if env.tier == Tier::Quick { 96 } else { 1024 };
        let mut first_known: Option<Failure> = None;
        for variant in 0..variants {
            if variant % shards != shard {
                continue;
            }
            let mut rng = 0xDEC0_u64 ^ (variant as u64) << 8;
            let dir = env.scratch.fresh("c08-decoy");
            let mut exec = Exec::new(&dir, Policy::DEFAULT)?;
            exec.keep_appended = true;
            let queue_names = ["q", "decoy-queue", "日本"];
            let queue = queue_names[(splitmix(&mut rng) % 3) as usize];
            exec.step_concrete(COp::Create { q: QName::plain(queue) })?;
            // some ordinary records first, so that the decoy position is plausible or not
            let warmup = splitmix(&mut rng) % 4;
            for round in 0..warmup {
                exec.step_concrete(COp::Append { q: QName::plain(queue), pos: None, batch: vec![Pay { len: 10 + (splitmix(&mut rng) % 3000) as u32, seed: round, style: 0 }] })?;
            }
            // the host record: prefix ++ embedded frame ++ suffix, appended through the raw API
            let prefix_len = (splitmix(&mut rng) % 200) as usize;
            let suffix_len = (splitmix(&mut rng) % 200) as usize;
            // the decoy entry addresses the host's own queue, or (mode B, every other variant) a queue that was never created
            let decoy_queue: &str = if variant % 3 == 2 && variant % 2 == 0 { "ghost-never-created" } else { queue };
            let decoy_entry = craft_entry(4, DECOY_POSITION, decoy_queue.as_bytes(), &craft_batch(&[(DECOY_POSITION, DECOY_PAYLOAD.to_vec())]));
            let embedded = craft_frame(1, &decoy_entry);
            // Mode B (one variant in three): the host record is split over two frames exactly where the raw image of
            // the decoy ENTRY starts, and the type byte of its Last frame is overwritten with Full. The frame CRC covers
            // the type byte, so the unchanged code drops the frame; a phantom here is NOT the known finding.
            let retype_mode = variant % 3 == 2;
            let mut host: Vec<u8>;
            if retype_mode {
                let cursor = exec.driver.global_cursor() as usize % crate::util::BLOCK;
                let remaining = crate::util::BLOCK - cursor;
                let fixed = 11 + queue.len() + 12;
                if remaining < FRAME_HEADER + fixed + 1 {
                    env.class("decoy:retype-alignment-skipped");
                    continue;
                }
                let filler_len = remaining - FRAME_HEADER - fixed;
                host = crate::util::fill(splitmix(&mut rng), filler_len, 0);
                host.extend_from_slice(&decoy_entry);
            } else {
                host = crate::util::fill(splitmix(&mut rng), prefix_len, 0);
                host.extend_from_slice(&embedded);
                host.extend_from_slice(&crate::util::fill(splitmix(&mut rng), suffix_len, 0));
            }
            let host_pos = warmup;
            let frames_before = exec.driver.tracer.frames.len();
            {
                let log = exec.driver.log.as_mut().unwrap();
                exec.driver.tracer.begin_op(1000);
                log.append_record(queue, None, &host[..]).map_err(|err| CaseError::Engine(format!("decoy append: {err}")))?;
                exec.driver.tracer.feed(mrecordlog::verif_hooks::take_events()).map_err(CaseError::Engine)?;
                exec.driver.tracer.end_op(1000);
            }
            let mut set = appended_set(&exec.appended);
            set.entry((queue.to_string(), host_pos)).or_default().push(std::rc::Rc::from(&host[..]));
            exec.step_concrete(COp::Append { q: QName::plain(queue), pos: None, batch: vec![Pay { len: 33, seed: 5, style: 0 }] })?;
            set.entry((queue.to_string(), host_pos + 1)).or_default().push(std::rc::Rc::from(Pay { len: 33, seed: 5, style: 0 }.bytes()));
            exec.driver.close()?;
            let image = Image::from_dir(&dir).map_err(|err| CaseError::Engine(format!("read dir: {err}")))?;
            let host_frames: Vec<_> = exec.driver.tracer.frames[frames_before..].iter().filter(|frame| frame.op == 1000).cloned().collect();
            if host_frames.len() != if retype_mode { 2 } else { 1 } {
                // the host entry was not laid out the way this campaign aims at
                env.class("decoy:host-split-skipped");
                continue;
            }
            let frame = &host_frames[0];
            // offset of the embedded frame inside the host frame's payload
            let embedded_off = 11 + queue.len() + 12 + prefix_len;
            let new_len = embedded_off as u16;
            let damage = if retype_mode {
                let last = &host_frames[1];
                if last.payload_len != decoy_entry.len() || last.frame_type != 4 {
                    env.class("decoy:host-split-skipped");
                    continue;
                }
                env.class("decoy:retype-image-opened");
                CDamage::Write { name: last.name.clone(), off: last.off + 6, hex: to_hex(&[1u8]) }
            } else {
                CDamage::Write { name: frame.name.clone(), off: frame.off + 4, hex: to_hex(&new_len.to_le_bytes()) }
            };
            let mut damaged = image.clone();
            apply(&mut damaged, &mut Extras::default(), &damage);
            let crash_dir = env.scratch.fresh("c08-decoy-open");
            env.evals(1);
            env.class("decoy:image-opened");
            let state = match recover(&damaged, &crash_dir, Policy::DEFAULT) {
                Ok(mut recovered) => {
                    recovered.driver.close()?;
                    recovered.state
                }
                Err(RecoverError::OpenFailed(_)) => continue,
                Err(RecoverError::Engine(msg)) => return Err(CaseError::Engine(msg)),
                Err(_) => continue,
            };
            if let Err((msg, name, pos, bytes)) = check_no_phantom(&set, &state) {
                let is_decoy = name == decoy_queue && pos == DECOY_POSITION && &bytes[..] == DECOY_PAYLOAD;
                let is_decoy = is_decoy && !retype_mode;
                let signature = if is_decoy { "decoy-resync" } else { "phantom-record" };
                let failure = Failure {
                    msg: if retype_mode {
                        format!("decoy campaign variant {variant}: host record's Last frame is the raw image of an entry; overwriting its type byte with Full: {msg}")
                    } else {
                        format!("decoy campaign variant {variant}: host record embeds a CRC-valid frame at payload offset {prefix_len}; overwriting the 2 len bytes of the host frame ({}@{}) with {new_len}: {msg}", frame.name, frame.off + 4)
                    },
                    signature: signature.to_string(),
                    policy: Policy::DEFAULT,
                    ops: exec.cops.clone(),
                    extra: json!({"decoy_variant": variant}),
                };
                if !is_decoy || env.strict {
                    return Err(CaseError::Violation(Box::new(failure)));
                }
                if env.counting {
                    *env.stats.known_hits.entry("decoy-resync".to_string()).or_insert(0) += 1;
                }
                if first_known.is_none() {
                    first_known = Some(failure);
                }
                env.nontrivial(mix(0xDEC0, variant as u64));
            }
            env.scratch.remove(&dir);
            env.scratch.remove(&crash_dir);
        }
        // The known finding is reported through the ordinary path (KNOWN_FINDINGS.txt decides whether it is
        // known): hand one representative to the runner.
        if let Some(failure) = first_known {
            if let Some(count) = env.stats.known_hits.get_mut("decoy-resync") {
                // the runner counts the representative again
                *count -= 1;
            }
            return Err(CaseError::Violation(Box::new(failure)));
        }
        Ok(())
    }

    fn run(&self, case: &Case, env: &mut Env) -> Result<(), CaseError> {
        if let Some(variant) = case.extra.as_ref().and_then(|extra| extra.get("orphan_variant")).and_then(|value| value.as_u64()) {
            return self.orphan_tail_campaign(env, variant as u32 % 256, 256);
        }
        if let Some(variant) = case.extra.as_ref().and_then(|extra| extra.get("orphan_head_variant")).and_then(|value| value.as_u64()) {
            return self.orphan_head_campaign(env, variant as u32 % 768, 768);
        }
        if let Some(variant) = case.extra.as_ref().and_then(|extra| extra.get("decoy_variant")).and_then(|value| value.as_u64()) {
            // replay of a decoy-campaign case: re-run that variant strictly
            let was_strict = env.strict;
            env.strict = true;
            let result = self.fixed_work(env, variant as u32 % 1024, 1024);
            env.strict = was_strict;
            return result;
        }
        let dir = env.scratch.fresh("c08");
        let mut exec = Exec::new(&dir, case.policy)?;
        exec.keep_appended = true;
        let mut ops = case.ops.clone();
        ops.push(SOp::Restart { policy: None });
        for sop in &ops {
            let step = exec.step(sop)?;
            exec.usable_or_skip(&step)?;
        }
        exec.driver.close()?;
        let final_image = exec.selfcheck_image(&Image::default())?;
        // everything the implementation reported as appended (positions from the real outcomes)
        let reported: Vec<(String, u64, Bytes)> = exec.really_appended.iter().map(|(name, pos, bytes, _)| (name.clone(), *pos, bytes.clone())).collect();
        let set = appended_set(&reported);
        let frames = exec.driver.tracer.frames.clone();
        let live = live_frames(&frames, &final_image);
        let extents = written_extent(&frames, &final_image);
        let history_hash = hash64(&exec.cops);
        let damaged_dir = env.scratch.fresh("c08-damaged");
        let mut word_state = case.words.iter().fold(0xC08_u64, |acc, word| acc.rotate_left(7) ^ *word as u64);
        let replay_damages: Option<Vec<CDamage>> = case.extra.as_ref().and_then(|extra| extra.get("damages")).and_then(|value| serde_json::from_value(value.clone()).ok());
        let rounds = if replay_damages.is_some() { 1 } else { 12 };
        for _round in 0..rounds {
            let mut image = final_image.clone();
            let mut damages: Vec<CDamage> = Vec::new();
            let mut fields: Vec<&'static str> = Vec::new();
            let mut changed_written = false;
            match &replay_damages {
                Some(list) => {
                    for damage in list {
                        apply(&mut image, &mut Extras::default(), damage);
                        damages.push(damage.clone());
                    }
                    changed_written = true;
                }
                None => {
                    let count = 1 + splitmix(&mut word_state) % 4;
                    for _ in 0..count {
                        let aimed = !live.is_empty() && splitmix(&mut word_state) % 2 == 0;
                        let damage = if aimed {
                            let frame = &live[(splitmix(&mut word_state) % live.len() as u64) as usize];
                            let (damage, field) = crate::damage::aimed_damage_in_context(frame, &live, &image, splitmix(&mut word_state));
                            fields.push(field.name());
                            Some(damage)
                        } else {
                            fields.push("unaimed");
                            random_inplace_damage(&image, &extents, splitmix(&mut word_state))
                        };
                        let Some(damage) = damage else { continue };
                        let inside_written = match &damage {
                            CDamage::Write { name, off, .. } | CDamage::Fill { name, off, .. } => {
                                extents.iter().any(|(file, end)| file == name && *off < *end)
                            }
                            _ => false,
                        };
                        if apply(&mut image, &mut Extras::default(), &damage) && inside_written {
                            changed_written = true;
                        }
                        damages.push(damage);
                    }
                }
            }
            env.evals(1);
            let extra = json!({"damages": damages});
            let state = match recover(&image, &damaged_dir, case.policy) {
                Ok(mut recovered) => {
                    recovered.driver.close()?;
                    recovered.state
                }
                Err(RecoverError::OpenFailed(_)) => {
                    env.class("open-returned-error");
                    continue;
                }
                Err(RecoverError::Engine(msg)) => return Err(CaseError::Engine(msg)),
                Err(_) => {
                    // a panic on damaged input is C10's concern: nothing was returned, so nothing can be a phantom
                    let _ = &extra;
                    env.class("open-panicked-skipped");
                    continue;
                }
            };
            if let Err((msg, _, _, _)) = check_no_phantom(&set, &state) {
                return Err(exec.failure(
                    format!("damages {:?}: {msg}; recovered {}", damages.iter().map(super::c12::describe_damage).collect::<Vec<_>>(), describe_state(&state)),
                    "phantom-record",
                    extra,
                ));
            }
            let recovered_records: usize = state.values().map(|queue| queue.recs.len()).sum();
            for field in &fields {
                env.class(&format!("damage:{field}"));
            }
            if changed_written && recovered_records > 0 {
                env.class("open-ok-with-records-after-damage-in-written-extent");
                env.nontrivial(mix(history_hash, hash64(&damages)));
                env.sample(|| json!({"ops": ops_sample(&exec.cops), "damages": damages.iter().map(super::c12::describe_damage).collect::<Vec<_>>(), "recovered": describe_state(&state)}));
            }
        }
        let _ = FRAME_HEADER;
        env.scratch.remove(&dir);
        env.scratch.remove(&damaged_dir);
        Ok(())
    }
}
