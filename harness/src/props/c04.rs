//! C04 — queue positions never regress or get reused (model-free history invariant).

use std::collections::BTreeMap;
use std::ops::Bound;

use mrecordlog::MultiRecordLog;
use proptest::strategy::BoxedStrategy;
use serde_json::json;

use crate::case::{ops_sample, Case, CaseError, Env, Tier};
use crate::crash::{for_each_crash_point, CrashCtx, Selection};
use crate::exec::Exec;
use crate::iotrace::{Effect, Image};
use crate::model::Outcome;
use crate::ops::{COp, GenCfg, Pay, Policy, QName, SOp};
use crate::recover::recover;
use crate::runner::Property;
use crate::util::{guarded, hash64, mix};

pub struct C04;

fn gen_cfg(tier: Tier) -> GenCfg {
    let mut cfg = super::c01::gen_cfg(tier);
    cfg.max_ops = if tier == Tier::Quick { 36 } else { 60 };
    cfg.pool = 5;
    cfg.skew_queues = true;
    cfg.restart_policies = vec![];
    cfg.w_restart = 7;
    cfg.w_delete = 2;
    cfg.w_create = 6;
    cfg.w_truncate = 30;
    cfg.w_tr_last = 46;
    cfg.w_tr_ahead = 16;
    cfg.w_tr_far = 3;
    cfg.w_len.fileish = 22;
    cfg.w_len.blockish = 22;
    cfg.w_len.huge = 0;
    cfg.w_special_names = 2;
    cfg
}

/// Highest position ever assigned or truncated-to for the current incarnation of each live queue
/// (`None` = nothing yet), computed from real outcomes only.
#[derive(Clone, Debug, Default, PartialEq, Eq)]
struct Watermarks {
    hi: BTreeMap<String, Option<u64>>,
}

fn is_empty(log: &MultiRecordLog, name: &str) -> Result<bool, String> {
    guarded(|| match log.range(name, (Bound::<u64>::Unbounded, Bound::<u64>::Unbounded)) {
        Ok(mut iter) => Ok(iter.next().is_none()),
        Err(_) => Err(format!("range({name:?}) says missing")),
    })
    .map_err(|panic| format!("range panicked: {panic}"))?
}

fn last_position(log: &MultiRecordLog, name: &str) -> Result<Option<u64>, String> {
    guarded(|| log.last_position(name).map_err(|_| format!("last_position({name:?}) says missing")))
        .map_err(|panic| format!("last_position panicked: {panic}"))?
}

impl Watermarks {
    /// Updates the watermarks with a completed call and checks the invariant on its outcome.
    fn update(&mut self, cop: &COp, outcome: &Outcome, log: &MultiRecordLog) -> Result<(), String> {
        match (cop, outcome) {
            (COp::Create { q }, Outcome::Created) => {
                self.hi.insert(q.text(), None);
            }
            (COp::Delete { q }, Outcome::Deleted) => {
                self.hi.remove(&q.text());
            }
            (COp::Append { q, pos, batch }, Outcome::Appended { last: Some(last) }) => {
                let name = q.text();
                let first = last + 1 - batch.len() as u64;
                let hi = self.hi.get(&name).copied().flatten();
                if let Some(hi) = hi {
                    if first <= hi {
                        return Err(format!("append on {name:?} was assigned positions {first}..={last} although position {hi} had already been assigned or truncated-to"));
                    }
                }
                if pos.is_none() {
                    let expected = hi.map(|hi| hi + 1).unwrap_or(0);
                    if first != expected {
                        return Err(format!("automatic position on {name:?} is {first}, expected {expected} (highest position so far: {hi:?})"));
                    }
                }
                self.hi.insert(name, Some(*last));
            }
            (COp::Truncate { q, pos }, Outcome::Truncated { .. }) => {
                let name = q.text();
                if is_empty(log, &name)? {
                    let hi = self.hi.get(&name).copied().flatten();
                    if hi.map_or(true, |hi| *pos > hi) {
                        self.hi.insert(name, Some(*pos));
                    }
                }
            }
            _ => {}
        }
        Ok(())
    }

    fn check_last_positions(&self, log: &MultiRecordLog) -> Result<(), String> {
        for (name, hi) in &self.hi {
            let last = last_position(log, name)?;
            if last != *hi {
                return Err(format!("last_position({name:?}) = {last:?} but the highest position assigned or truncated-to is {hi:?}"));
            }
        }
        Ok(())
    }
}

impl Property for C04 {
    fn id(&self) -> &'static str {
        "C04"
    }

    fn level(&self) -> &'static str {
        "fault_enumeration"
    }

    fn rule(&self) -> String {
        "generated histories over up to 5 queues with a skewed choice of queue (busy queues append file-sized payloads and \
         truncate so that 128 KiB WAL files roll and are garbage-collected; idle queues are emptied — truncate to last, \
         future truncate, never appended — and left alone), restarts, under Always(Flush). Oracle = history invariant \
         computed from the real outcomes only (no model): per queue incarnation H = highest position ever assigned or \
         truncated-to; every successful append is assigned positions > H, automatic positions == H+1, and \
         last_position() == H after every call and restart. Then crash points are ENUMERATED over the recorded I/O trace \
         (every effect boundary + byte cuts): after recovery every surviving queue must have last_position in {H, H'} (H' \
         also counts the in-flight call), append(None) must return last_position+1, a retry of last_position must be a \
         no-op, an older explicit position must be rejected as Past, and after one more restart every queue must still \
         report the position just assigned; at every other crash point the recovered log is first restarted once more \
         with no call in between and must show the same queues and last positions before the probes run. evaluations = calls checked + crash images \
         probed. non-trivial = an append (live or after recovery) on a queue that was empty while >= 1 WAL file was \
         unlinked and >= 1 restart/crash happened since it became empty; distinct = hash(history, op or crash point, queue)."
            .to_string()
    }

    fn assumptions(&self) -> Vec<String> {
        vec![
            "process-crash model as in C02".to_string(),
            "'file holding its last mention was unlinked' is approximated by '>= 1 file unlinked since the queue became empty'".to_string(),
        ]
    }

    fn cases(&self, tier: Tier) -> u32 {
        match tier {
            Tier::Quick => 2_000,
            Tier::Thorough => 40_000,
        }
    }

    fn max_shrink_iters(&self) -> u32 {
        400
    }

    fn strategy(&self, tier: Tier) -> BoxedStrategy<Case> {
        super::case_strategy(&gen_cfg(tier), vec![Policy::Always { fsync: false }, Policy::Always { fsync: true }], 4)
    }

    fn run(&self, case: &Case, env: &mut Env) -> Result<(), CaseError> {
        let dir = env.scratch.fresh("c04");
        let mut exec = Exec::new(&dir, case.policy)?;
        let mut marks = Watermarks::default();
        // watermarks after each op (index = op)
        let mut marks_after: Vec<Watermarks> = Vec::new();
        // for the non-triviality rule: per queue, (unlinks, restarts) counters at the time it became empty
        let mut became_empty: BTreeMap<String, (u64, u64)> = BTreeMap::new();
        let mut unlinks = 0u64;
        let mut restarts = 0u64;
        let mut ops = case.ops.clone();
        ops.push(SOp::Restart { policy: None });
        // final probes: append(None) on every queue (resolved when reached)
        let history_hash_seed = hash64(&case.words);
        let mut probe_phase = false;
        let mut idx = 0usize;
        loop {
            let cop = if idx < ops.len() {
                exec.resolve(&ops[idx])
            } else {
                if !probe_phase {
                    probe_phase = true;
                }
                let probe_idx = idx - ops.len();
                let names: Vec<String> = marks.hi.keys().cloned().collect();
                if probe_idx >= names.len() {
                    break;
                }
                COp::Append { q: QName::plain(&names[probe_idx]), pos: None, batch: vec![Pay { len: 9, seed: probe_idx as u64, style: 0 }] }
            };
            idx += 1;
            let was_empty = cop.queue().map(|q| {
                let name = q.text();
                exec.driver.log.as_ref().map(|log| log.queue_exists(&name) && is_empty(log, &name).unwrap_or(false)).unwrap_or(false)
            }).unwrap_or(false);
            let step = exec.step_concrete(cop)?;
            exec.usable_or_skip(&step)?;
            env.evals(1);
            unlinks += exec.effects()[step.effects.clone()].iter().filter(|effect| matches!(effect, Effect::Unlink { .. })).count() as u64;
            if matches!(step.cop, COp::Restart { .. }) {
                restarts += 1;
            }
            let log = exec.driver.log.as_ref().unwrap();
            if let Err(msg) = marks.update(&step.cop, &step.real.outcome, log).and_then(|()| marks.check_last_positions(log)) {
                return Err(exec.failure(format!("after op #{} {}: {msg}", step.idx, step.cop.short()), "position-invariant", json!({})));
            }
            marks_after.push(marks.clone());
            // bookkeeping for the non-triviality rule
            if let Some(q) = step.cop.queue() {
                let name = q.text();
                if log.queue_exists(&name) {
                    let empty_now = is_empty(log, &name).unwrap_or(false);
                    if empty_now {
                        became_empty.entry(name.clone()).or_insert((unlinks, restarts));
                    } else {
                        if let (true, Some((unlinks_then, restarts_then))) = (was_empty, became_empty.get(&name)) {
                            if matches!(step.real.outcome, Outcome::Appended { last: Some(_) }) && unlinks > *unlinks_then && restarts > *restarts_then {
                                env.class("append-on-idle-emptied-queue-after-gc-and-restart");
                                env.nontrivial(mix(history_hash_seed, hash64(&(step.idx, &name, &exec.cops))));
                                env.sample(|| json!({"ops": ops_sample(&exec.cops), "queue": name, "assigned": format!("{:?}", step.real.outcome)}));
                            }
                        }
                        became_empty.remove(&name);
                    }
                } else {
                    became_empty.remove(&name);
                }
            }
        }
        exec.driver.close()?;
        exec.selfcheck_image(&Image::default())?;

        // crash variants
        let effects: Vec<Effect> = exec.effects().to_vec();
        let frames = exec.driver.tracer.frames.clone();
        let mut selection = Selection::standard(&case.words);
        selection.exhaustive_below = 300;
        selection.generated_cuts = 1;
        selection.only = super::c02::parse_crash_point(&case.extra);
        let crash_dir = env.scratch.fresh("c04-crash");
        let history_hash = hash64(&exec.cops);
        // unlink / empty bookkeeping along the trace for the non-triviality rule
        let cops = exec.cops.clone();
        for_each_crash_point(&Image::default(), &effects, &frames, &selection, |ctx: &CrashCtx| -> Result<(), CaseError> {
            env.evals(1);
            let extra = json!({"crash": {"k": ctx.point.k, "b": ctx.point.b}});
            let where_ = format!("crash at effect {} byte {} ({})", ctx.point.k, ctx.point.b, ctx.class.name());
            let recovered = match recover(ctx.image, &crash_dir, case.policy) {
                Ok(recovered) => recovered,
                Err(crate::recover::RecoverError::Engine(msg)) => return Err(CaseError::Engine(msg)),
                Err(_) => {
                    // a recovery that fails is C02's concern: nothing to probe here
                    env.class("crash:open-failed-skipped");
                    return Ok(());
                }
            };
            let before = match ctx.last_completed {
                Some(idx) if idx != usize::MAX => marks_after[idx].clone(),
                _ => Watermarks::default(),
            };
            let inflight = ctx.inflight.filter(|op| *op != usize::MAX);
            let after = inflight.map(|op| marks_after[op].clone());
            let inflight_queue: Option<String> = inflight.and_then(|op| cops[op].queue().map(|q| q.text()));
            let inflight_changes_existence = inflight.map_or(false, |op| matches!(cops[op], COp::Create { .. } | COp::Delete { .. }));
            let mut driver = recovered.driver;
            // every other crash point: restart once more BEFORE any probe touches the log ("restarted or recovered from
            // a crash"): what the recovery showed must not depend on something only the recovering incarnation knew
            // (a probe append would write the queue's position again and hide that)
            if hash64(&(ctx.point.k, ctx.point.b)) % 2 == 1 {
                let shown: Vec<(String, Option<u64>)> = {
                    let log = driver.log.as_ref().unwrap();
                    log.list_queues().map(|name| (name.to_string(), last_position(log, name).ok().flatten())).collect()
                };
                let _ = driver.tracer.feed(mrecordlog::verif_hooks::take_events());
                driver.close()?;
                match crate::recover::recover_dir(&crash_dir, case.policy) {
                    Ok(again) => {
                        env.class("crash:idle-restart-before-probes");
                        for (name, hi) in &shown {
                            let log = again.driver.log.as_ref().unwrap();
                            let now = if log.queue_exists(name) { Some(last_position(log, name).ok().flatten()) } else { None };
                            if now != Some(*hi) {
                                let mut again = again;
                                again.driver.close()?;
                                return Err(exec.failure(
                                    format!("{where_}: the recovered log showed {name:?} with last_position {hi:?}; after one more restart with no call in between it shows {}",
                                        match now { None => "no such queue (its positions would start again from 0)".to_string(), Some(pos) => format!("last_position {pos:?}") }),
                                    "position-lost-at-idle-restart-after-recovery",
                                    extra,
                                ));
                            }
                        }
                        driver = again.driver;
                    }
                    Err(crate::recover::RecoverError::Engine(msg)) => return Err(CaseError::Engine(msg)),
                    Err(_) => {
                        env.class("crash:second-open-failed-skipped");
                        return Ok(());
                    }
                }
            }
            let names: Vec<String> = driver.log.as_ref().unwrap().list_queues().map(|name| name.to_string()).collect();
            // a queue that completed calls left alive must still be there (unless the in-flight call deletes it):
            // losing the queue loses every position ever assigned in it
            for (name, hi) in &before.hi {
                let deleted_inflight = inflight.map_or(false, |op| matches!(&cops[op], COp::Delete { q } if q.text() == *name));
                if !deleted_inflight && !names.contains(name) {
                    return Err(exec.failure(
                        format!("{where_}: queue {name:?} (highest position assigned or truncated-to: {hi:?}) does not exist after recovery, so its positions would start again from 0"),
                        "queue-and-positions-lost-after-crash",
                        extra,
                    ));
                }
            }
            for name in names {
                if inflight_changes_existence && inflight_queue.as_deref() == Some(name.as_str()) {
                    continue;
                }
                let Some(hi_before) = before.hi.get(&name).copied() else {
                    // the queue must then come from the in-flight call (handled above) — anything else is C02's concern
                    continue;
                };
                let hi_after = after.as_ref().and_then(|marks| marks.hi.get(&name).copied());
                let log = driver.log.as_mut().unwrap();
                let last = last_position(log, &name).map_err(|msg| exec.failure(format!("{where_}: {msg}"), "observe-failed", extra.clone()))?;
                if last != hi_before && Some(last) != hi_after {
                    return Err(exec.failure(
                        format!("{where_}: after recovery last_position({name:?}) = {last:?}; highest position assigned or truncated-to by completed calls is {hi_before:?}{}",
                            hi_after.map(|hi| format!(" (with the in-flight call: {hi:?})")).unwrap_or_default()),
                        "position-regressed-after-crash",
                        extra,
                    ));
                }
                // explicit positions at or below the watermark must not be assigned again
                if let Some(last) = last {
                    let payload = [7u8; 3];
                    let retry = guarded(|| log.append_records(&name, Some(last), std::iter::once(&payload[..])));
                    match retry {
                        Ok(Ok(outcome)) if outcome.last_position.is_none() => {}
                        other => {
                            return Err(exec.failure(format!("{where_}: retry of position {last} on {name:?} after recovery returned {:?}", other.map(|res| res.map(|outcome| outcome.last_position).map_err(|err| err.to_string()))), "retry-not-noop-after-crash", extra));
                        }
                    }
                    if last >= 1 {
                        let past = guarded(|| log.append_records(&name, Some(last - 1), std::iter::once(&payload[..])));
                        match past {
                            Ok(Err(mrecordlog::error::AppendError::Past)) => {}
                            other => {
                                return Err(exec.failure(format!("{where_}: explicit position {} on {name:?} (already assigned) after recovery returned {:?}", last - 1, other.map(|res| res.map(|outcome| outcome.last_position).map_err(|err| err.to_string()))), "old-position-accepted-after-crash", extra));
                            }
                        }
                    }
                }
                let payload = [9u8; 4];
                let auto = guarded(|| log.append_records(&name, None, std::iter::once(&payload[..])));
                let expected = last.map(|pos| pos + 1).unwrap_or(0);
                match auto {
                    Ok(Ok(outcome)) if outcome.last_position == Some(expected) => {}
                    other => {
                        return Err(exec.failure(format!("{where_}: append(None) on {name:?} after recovery returned {:?}, expected position {expected}", other.map(|res| res.map(|outcome| outcome.last_position).map_err(|err| err.to_string()))), "auto-position-after-crash", extra));
                    }
                }
                // non-trivial: the queue is empty in the recovered log and files had been unlinked before the crash
                let unlinked_before = effects[..ctx.point.k.min(effects.len())].iter().any(|effect| matches!(effect, Effect::Unlink { .. }));
                if unlinked_before && last.is_some() {
                    let empty_at_crash = recovered.state.get(&name).map_or(false, |queue| queue.recs.is_empty());
                    if empty_at_crash {
                        env.class("append-on-emptied-queue-after-crash-and-gc");
                        env.nontrivial(mix(history_hash, hash64(&(ctx.point, &name))));
                    }
                }
            }
            let _ = driver.tracer.feed(mrecordlog::verif_hooks::take_events());
            // positions handed out after the recovery must survive a further restart ("never handed out again")
            let assigned: Vec<(String, Option<u64>)> = {
                let log = driver.log.as_ref().unwrap();
                log.list_queues().map(|name| (name.to_string(), last_position(log, name).ok().flatten())).collect()
            };
            driver.close()?;
            match crate::recover::recover_dir(&crash_dir, case.policy) {
                Ok(mut again) => {
                    for (name, hi) in &assigned {
                        let now = again.driver.log.as_ref().and_then(|log| last_position(log, name).ok()).flatten();
                        if now != *hi {
                            again.driver.close()?;
                            return Err(exec.failure(
                                format!("{where_}: after recovery, probe appends and one more restart, last_position({name:?}) = {now:?} but position {hi:?} had been assigned: it would be handed out again"),
                                "position-reused-after-recovery-and-restart",
                                extra,
                            ));
                        }
                    }
                    again.driver.close()?;
                }
                Err(crate::recover::RecoverError::Engine(msg)) => return Err(CaseError::Engine(msg)),
                Err(_) => env.class("crash:second-open-failed-skipped"),
            }
            Ok(())
        })?;
        env.scratch.remove(&dir);
        env.scratch.remove(&crash_dir);
        Ok(())
    }
}
