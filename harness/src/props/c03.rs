//! C03 — persisted operations survive any later crash, under every policy.

use std::collections::BTreeMap;

use proptest::strategy::BoxedStrategy;
use serde_json::{json, Value};

use crate::case::{ops_sample, Case, CaseError, Env, Tier};
use crate::crash::{for_each_crash_point, CrashCtx, PowerState, PowerVariant, Selection};
use crate::exec::Exec;
use crate::iotrace::{Effect, Image};
use crate::model::{describe_state, Bytes, Outcome, State};
use crate::ops::{COp, GenCfg, Policy};
use crate::recover::recover;
use crate::runner::Property;
use crate::util::{hash64, mix};

pub struct C03;

fn gen_cfg(tier: Tier) -> GenCfg {
    let mut cfg = super::c01::gen_cfg(tier);
    cfg.max_ops = if tier == Tier::Quick { 34 } else { 50 };
    cfg.restart_policies = vec![];
    cfg.w_restart = 3;
    cfg.w_persist = 7;
    cfg.w_len.huge = 0;
    cfg.w_len.fileish = 12;
    cfg.w_len.blockish = 22;
    cfg.w_special_names = 2;
    cfg
}

/// Does the return of op `idx` guarantee that it (and everything before it) survives a process
/// crash / a power loss?
pub fn persistence_points(cops: &[COp], outcomes: &[Outcome], policy: Policy) -> (Vec<bool>, Vec<bool>) {
    let (always, always_fsync) = match policy {
        Policy::Always { fsync } => (true, fsync),
        _ => (false, false),
    };
    let mut process = Vec::with_capacity(cops.len());
    let mut power = Vec::with_capacity(cops.len());
    for (cop, outcome) in cops.iter().zip(outcomes.iter()) {
        let (proc_ok, power_ok) = match (cop, outcome) {
            (COp::Create { .. }, Outcome::Created) => (true, true),
            (COp::Delete { .. }, Outcome::Deleted) => (true, true),
            (COp::Append { .. }, Outcome::Appended { last: Some(_) }) => (always, always_fsync),
            (COp::Truncate { .. }, Outcome::Truncated { .. }) => (always, always_fsync),
            (COp::Persist { fsync }, Outcome::Persisted) => (true, *fsync),
            (COp::Restart { .. }, Outcome::Restarted) => (true, false),
            _ => (false, false),
        };
        process.push(proc_ok);
        power.push(power_ok);
    }
    (process, power)
}

pub struct History<'a> {
    pub cops: &'a [COp],
    pub snapshots: &'a [State],
    /// (queue, position) -> payloads ever appended there, with the index of the appending op.
    pub appended: &'a BTreeMap<(String, u64), Vec<(usize, Bytes)>>,
}

/// Monotone oracle: the recovered state `got` is at least as recent as the state after op `p`
/// (`None` = nothing persisted yet), given that ops up to `upto` may have been applied.
pub fn monotone_check(history: &History, p: Option<usize>, upto: Option<usize>, got: &State) -> Result<(), (String, &'static str)> {
    let persisted: State = match p {
        Some(idx) => history.snapshots[idx].clone(),
        None => State::new(),
    };
    let later_start = p.map(|idx| idx + 1).unwrap_or(0);
    let later_end = upto.map(|idx| idx + 1).unwrap_or(0);
    let later: &[COp] = if later_start < later_end { &history.cops[later_start..later_end] } else { &[] };
    for (name, queue) in &persisted {
        let deleted_later = later.iter().any(|cop| matches!(cop, COp::Delete { q } if q.text() == *name));
        if deleted_later {
            continue;
        }
        let Some(recovered) = got.get(name) else {
            return Err((format!("queue {name:?} existed at the last persisted operation and no later call deletes it, but it is gone after recovery"), "persisted-queue-lost"));
        };
        let truncated_to: Option<u64> = later
            .iter()
            .filter_map(|cop| match cop {
                COp::Truncate { q, pos } if q.text() == *name => Some(*pos),
                _ => None,
            })
            .max();
        for (pos, bytes) in &queue.recs {
            if truncated_to.map_or(false, |limit| *pos <= limit) {
                continue;
            }
            match recovered.recs.iter().find(|(other, _)| other == pos) {
                None => {
                    return Err((format!("record {name:?}@{pos} was retained at the last persisted operation and no later call truncates it, but it is missing after recovery"), "persisted-record-lost"));
                }
                Some((_, other_bytes)) => {
                    if other_bytes != bytes {
                        return Err((format!("record {name:?}@{pos} has a different payload after recovery"), "persisted-record-changed"));
                    }
                }
            }
        }
        if recovered.next < queue.next {
            return Err((format!("queue {name:?}: next position after recovery is {} < {} at the last persisted operation", recovered.next, queue.next), "position-regressed"));
        }
        let floor = queue.first_position();
        if let Some((pos, _)) = recovered.recs.iter().find(|(pos, _)| *pos < floor) {
            return Err((format!("queue {name:?}: record at position {pos} reappeared although positions below {floor} had been truncated at the last persisted operation"), "truncated-record-reappeared"));
        }
    }
    for (name, recovered) in got {
        if !persisted.contains_key(name) {
            let created_later = later.iter().any(|cop| matches!(cop, COp::Create { q } if q.text() == *name));
            if !created_later {
                return Err((format!("queue {name:?} exists after recovery although it did not exist at the last persisted operation and no later call creates it"), "deleted-queue-reappeared"));
            }
        }
        let mut previous: Option<u64> = None;
        for (pos, bytes) in &recovered.recs {
            if previous.map_or(false, |prev| prev >= *pos) {
                return Err((format!("queue {name:?}: positions not strictly increasing after recovery"), "positions-not-increasing"));
            }
            previous = Some(*pos);
            let known = history
                .appended
                .get(&(name.clone(), *pos))
                .map(|list| list.iter().any(|(op, payload)| upto.map_or(false, |limit| *op <= limit) && payload == bytes))
                .unwrap_or(false);
            if !known {
                return Err((format!("record {name:?}@{pos} ({} bytes) recovered but never appended", bytes.len()), "record-never-appended"));
            }
        }
    }
    Ok(())
}

/// (queue, position) -> payloads the implementation reported as appended there, with the appending call's index.
pub fn really_appended_index(appended: &[(String, u64, Bytes, usize)]) -> BTreeMap<(String, u64), Vec<(usize, Bytes)>> {
    let mut index: BTreeMap<(String, u64), Vec<(usize, Bytes)>> = BTreeMap::new();
    for (name, pos, bytes, op) in appended {
        index.entry((name.clone(), *pos)).or_default().push((*op, bytes.clone()));
    }
    index
}

pub fn appended_index(appended: &[(String, u64, Bytes)], cops: &[COp], outcomes: &[Outcome]) -> BTreeMap<(String, u64), Vec<(usize, Bytes)>> {
    // `appended` is in op order; recover the op index by walking the successful appends
    let mut index: BTreeMap<(String, u64), Vec<(usize, Bytes)>> = BTreeMap::new();
    let mut cursor = 0usize;
    for (op, (cop, outcome)) in cops.iter().zip(outcomes.iter()).enumerate() {
        if let (COp::Append { batch, .. }, Outcome::Appended { last: Some(_) }) = (cop, outcome) {
            for _ in 0..batch.len() {
                let (name, pos, bytes) = &appended[cursor];
                index.entry((name.clone(), *pos)).or_default().push((op, bytes.clone()));
                cursor += 1;
            }
        }
    }
    index
}

impl Property for C03 {
    fn id(&self) -> &'static str {
        "C03"
    }

    fn level(&self) -> &'static str {
        "fault_enumeration"
    }

    fn rule(&self) -> String {
        "generated (policy, history) pairs — policy in {DoNothing, OnDelay(1h, Flush|FlushAndFsync), Always(Flush), \
         Always(FlushAndFsync)}, histories with explicit persist(Flush|FlushAndFsync) calls — executed once with the I/O \
         hook; then ENUMERATED crash points under two loss models. (1) process crash: every effect boundary plus byte \
         cuts inside writes; whatever is still in the user-space buffer is lost. (2) power loss at every effect \
         boundary: images 'adversarial' (all bytes written since a file's last fsync lost, every unlink applied, \
         un-dir-synced creations absent | present) and 'mixed' (generated per-file prefix of unsynced writes, generated \
         program-order prefix of un-dir-synced name-space operations). Oracle (monotone): with P the last completed call \
         whose return guarantees persistence under the loss model (create/delete success; any effective append/truncate \
         under Always(a); persist(a); a=Flush counts for process crash only; a clean restart counts for process crash), \
         recovery must succeed and: every queue of S_P not deleted later exists; no queue absent from S_P and not \
         created later exists; every record of S_P not truncated later is present byte-identical; next >= S_P.next; no \
         record below S_P's first retained position reappears; every recovered record was appended. For every 4th process-crash \
         point a second crash follows: create_queue (always flush + fsync) on the recovered log, drop, re-open — the queue and \
         everything the first recovery showed must still be there. evaluations = crash images opened. non-trivial = some call after P exists AND >= 1 file was unlinked after P; distinct = \
         hash(history, loss model, crash point, variant)."
            .to_string()
    }

    fn assumptions(&self) -> Vec<String> {
        vec![
            "power-loss model: per-file fdatasync makes that file's bytes and size durable; directory fsync makes name-space changes durable; name-space operations become durable in program order; unsynced writes of one file survive as a program-order prefix".to_string(),
            "OnDelay is used with a 1 h interval (never due); always-due OnDelay is not relied upon as a persistence guarantee".to_string(),
            "OS-level write sequence derived from BufWriter occupancy and validated against the real directory".to_string(),
        ]
    }

    fn cases(&self, tier: Tier) -> u32 {
        match tier {
            Tier::Quick => 1_400,
            Tier::Thorough => 40_000,
        }
    }

    fn max_shrink_iters(&self) -> u32 {
        400
    }

    fn strategy(&self, tier: Tier) -> BoxedStrategy<Case> {
        super::case_strategy(
            &gen_cfg(tier),
            vec![
                Policy::DoNothing,
                Policy::DoNothing,
                Policy::DelayHour { fsync: false },
                Policy::DelayHour { fsync: true },
                Policy::Always { fsync: false },
                Policy::Always { fsync: false },
                Policy::Always { fsync: true },
            ],
            8,
        )
    }

    fn run(&self, case: &Case, env: &mut Env) -> Result<(), CaseError> {
        let dir = env.scratch.fresh("c03");
        let mut exec = Exec::new(&dir, case.policy)?;
        // model-free: states and outcomes are those the REAL log showed
        exec.keep_live = true;
        let mut outcomes: Vec<Outcome> = Vec::new();
        for sop in &case.ops {
            let step = exec.step(sop)?;
            exec.usable_or_skip(&step)?;
            outcomes.push(step.real.outcome.clone());
        }
        exec.driver.close()?;
        exec.selfcheck_image(&Image::default())?;
        let effects: Vec<Effect> = exec.effects().to_vec();
        let frames = exec.driver.tracer.frames.clone();
        let (persist_process, persist_power) = persistence_points(&exec.cops, &outcomes, case.policy);
        let appended = really_appended_index(&exec.really_appended);
        let history = History { cops: &exec.cops, snapshots: &exec.live, appended: &appended };
        let history_hash = hash64(&(case.policy, &exec.cops));
        let crash_dir = env.scratch.fresh("c03-crash");
        // index of the OpEnd effect of each op (to know which unlinks happened after P)
        let mut op_end_effect: BTreeMap<usize, usize> = BTreeMap::new();
        for (idx, effect) in effects.iter().enumerate() {
            if let Effect::OpEnd { op } = effect {
                op_end_effect.insert(*op, idx);
            }
        }
        let unlink_positions: Vec<usize> = effects.iter().enumerate().filter(|(_, effect)| matches!(effect, Effect::Unlink { .. })).map(|(idx, _)| idx).collect();
        let last_persist = |flags: &[bool], last_completed: Option<usize>| -> Option<usize> {
            let limit = match last_completed {
                Some(idx) if idx != usize::MAX => idx,
                _ => return None,
            };
            (0..=limit).rev().find(|idx| flags[*idx])
        };
        let replay_model: Option<String> = case.extra.as_ref().and_then(|extra| extra.get("loss_model")).and_then(|value| value.as_str()).map(|text| text.to_string());
        let replay_point = super::c02::parse_crash_point(&case.extra);
        let replay_variant: Option<Value> = case.extra.as_ref().and_then(|extra| extra.get("variant")).cloned();

        // (1) process-crash model
        if replay_model.as_deref().map_or(true, |model| model == "process") {
            let mut selection = Selection::standard(&case.words);
            selection.exhaustive_below = 600;
            selection.generated_cuts = 1;
            selection.only = replay_point;
            for_each_crash_point(&Image::default(), &effects, &frames, &selection, |ctx: &CrashCtx| -> Result<(), CaseError> {
                env.evals(1);
                let p = last_persist(&persist_process, ctx.last_completed);
                let upto = match ctx.inflight {
                    Some(op) if op != usize::MAX => Some(op),
                    _ => ctx.last_completed.filter(|idx| *idx != usize::MAX),
                };
                let extra = json!({"loss_model": "process", "crash": {"k": ctx.point.k, "b": ctx.point.b}});
                let where_ = format!("[{:?}] process crash at effect {} byte {} (last persisted op: {}; image {})",
                    case.policy, ctx.point.k, ctx.point.b,
                    p.map(|idx| format!("#{idx} {}", exec.cops[idx].short())).unwrap_or_else(|| "none".into()), ctx.image.describe());
                let mut recovered = match recover(ctx.image, &crash_dir, case.policy) {
                    Ok(recovered) => recovered,
                    Err(err) => {
                        let (msg, signature) = err.into_case_error()?;
                        return Err(exec.failure(format!("{where_}: {msg}"), signature, extra));
                    }
                };
                // Two-crash extension (every 4th crash point, and always when replaying): on the recovered log, one more
                // operation is persisted (create_queue always flushes + fsyncs) and the process "dies" again right after it
                // returned (clean drop = everything flushed): the second recovery must still show that queue and everything
                // the first recovery showed.
                let two_crash = replay_point.is_some() || mix(history_hash, hash64(&ctx.point)) % 4 == 0;
                let mut second_failure: Option<String> = None;
                if two_crash {
                    const PROBE: &str = "__c03_probe__";
                    let created = {
                        let log = recovered.driver.log.as_mut().unwrap();
                        crate::util::guarded(|| log.create_queue(PROBE).is_ok())
                    };
                    let _ = recovered.driver.tracer.feed(mrecordlog::verif_hooks::take_events());
                    recovered.driver.close()?;
                    if created == Ok(true) {
                        env.class("process-crash:two-crash-probe");
                        match crate::recover::recover_dir(&crash_dir, case.policy) {
                            Ok(mut second) => {
                                second.driver.close()?;
                                if !second.state.contains_key(PROBE) {
                                    second_failure = Some(format!("a queue created (flushed and fsynced) on the recovered log is gone after the next restart; second recovery shows {}", describe_state(&second.state)));
                                } else {
                                    let mut expected = recovered.state.clone();
                                    expected.insert(PROBE.to_string(), crate::model::QState { recs: Vec::new(), next: 0 });
                                    if let Some(diff) = crate::model::diff_states(&expected, &second.state) {
                                        second_failure = Some(format!("after one more persisted operation and a restart the recovered log lost state: {diff}"));
                                    }
                                }
                            }
                            Err(crate::recover::RecoverError::Engine(msg)) => return Err(CaseError::Engine(msg)),
                            Err(err) => {
                                let (msg, _) = err.into_case_error()?;
                                second_failure = Some(format!("the recovered log cannot be re-opened after one more persisted operation: {msg}"));
                            }
                        }
                    }
                } else {
                    recovered.driver.close()?;
                }
                if let Err((msg, signature)) = monotone_check(&history, p, upto, &recovered.state) {
                    return Err(exec.failure(format!("{where_}: {msg}; recovered {}", describe_state(&recovered.state)), signature, extra));
                }
                if let Some(msg) = second_failure {
                    return Err(exec.failure(format!("{where_}: {msg}"), "persisted-after-recovery-lost", extra));
                }
                let p_end = p.and_then(|idx| op_end_effect.get(&idx).copied()).unwrap_or(0);
                let later_exists = upto.map_or(false, |limit| p.map_or(true, |idx| limit > idx));
                let unlink_after = unlink_positions.iter().any(|pos| *pos > p_end && *pos < ctx.point.k);
                env.class("process-crash");
                if later_exists && unlink_after {
                    env.class("process-crash:nontrivial");
                    env.nontrivial(mix(history_hash, hash64(&("process", ctx.point))));
                    env.sample(|| json!({"policy": format!("{:?}", case.policy), "ops": ops_sample(&exec.cops), "crash": where_, "recovered": describe_state(&recovered.state)}));
                }
                Ok(())
            })?;
        }

        // (2) power-loss model, at effect boundaries
        if replay_model.as_deref().map_or(true, |model| model == "power") {
            let mut power = PowerState::default();
            let mut inflight: Option<usize> = None;
            let mut last_completed: Option<usize> = None;
            let mut word_state = case.words.iter().fold(0x5EED_u64, |acc, word| acc.rotate_left(13) ^ *word as u64);
            for (k, effect) in effects.iter().enumerate() {
                let worthwhile = !matches!(effect, Effect::OpEnd { .. } | Effect::Dropped);
                let selected = match replay_point {
                    Some(point) => point.k == k,
                    None => worthwhile && power.has_unsynced(),
                };
                if selected {
                    let p = last_persist(&persist_power, last_completed);
                    let upto = match inflight {
                        Some(op) if op != usize::MAX => Some(op),
                        _ => last_completed.filter(|idx| *idx != usize::MAX),
                    };
                    let variants: Vec<PowerVariant> = match &replay_variant {
                        Some(value) => match value.get("kind").and_then(|kind| kind.as_str()) {
                            Some("absent") => vec![PowerVariant::AdversarialAbsent],
                            Some("present") => vec![PowerVariant::AdversarialPresent],
                            _ => vec![PowerVariant::Mixed(value.get("seed").and_then(|seed| seed.as_u64()).unwrap_or(1))],
                        },
                        None => vec![
                            PowerVariant::AdversarialAbsent,
                            PowerVariant::AdversarialPresent,
                            PowerVariant::Mixed(crate::util::splitmix(&mut word_state)),
                            PowerVariant::Mixed(crate::util::splitmix(&mut word_state)),
                        ],
                    };
                    for variant in variants {
                        env.evals(1);
                        let image = power.image(variant);
                        let variant_json = match variant {
                            PowerVariant::AdversarialAbsent => json!({"kind": "absent"}),
                            PowerVariant::AdversarialPresent => json!({"kind": "present"}),
                            PowerVariant::Mixed(seed) => json!({"kind": "mixed", "seed": seed}),
                        };
                        let extra = json!({"loss_model": "power", "crash": {"k": k, "b": 0}, "variant": variant_json});
                        let where_ = format!("[{:?}] power loss before effect {k} ({variant:?}; last durable op: {}; image {})",
                            case.policy, p.map(|idx| format!("#{idx} {}", exec.cops[idx].short())).unwrap_or_else(|| "none".into()), image.describe());
                        let mut recovered = match recover(&image, &crash_dir, case.policy) {
                            Ok(recovered) => recovered,
                            Err(err) => {
                                let (msg, signature) = err.into_case_error()?;
                                return Err(exec.failure(format!("{where_}: {msg}"), signature, extra));
                            }
                        };
                        recovered.driver.close()?;
                        if let Err((msg, signature)) = monotone_check(&history, p, upto, &recovered.state) {
                            return Err(exec.failure(format!("{where_}: {msg}; recovered {}", describe_state(&recovered.state)), signature, extra));
                        }
                        let p_end = p.and_then(|idx| op_end_effect.get(&idx).copied()).unwrap_or(0);
                        let later_exists = upto.map_or(false, |limit| p.map_or(true, |idx| limit > idx));
                        let unlink_after = unlink_positions.iter().any(|pos| *pos > p_end && *pos < k);
                        env.class("power-loss");
                        if later_exists && unlink_after {
                            env.class("power-loss:nontrivial");
                            env.nontrivial(mix(history_hash, hash64(&("power", k, variant))));
                            env.sample(|| json!({"policy": format!("{:?}", case.policy), "ops": ops_sample(&exec.cops), "crash": where_, "recovered": describe_state(&recovered.state)}));
                        }
                    }
                }
                match effect {
                    Effect::OpBegin { op } => inflight = Some(*op),
                    Effect::OpEnd { op } => {
                        inflight = None;
                        last_completed = Some(*op);
                    }
                    _ => {}
                }
                power.apply(effect);
            }
        }
        env.scratch.remove(&dir);
        env.scratch.remove(&crash_dir);
        Ok(())
    }
}
