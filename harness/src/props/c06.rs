//! C06 — WAL files are reclaimed as soon as nothing retained lives in them.

use std::collections::BTreeMap;

use proptest::strategy::BoxedStrategy;
use serde_json::json;

use crate::case::{Case, CaseError, Env, Tier};
use crate::exec::Exec;
use crate::crash::{for_each_crash_point, CrashCtx, Selection};
use crate::iotrace::{Effect, Image};
use crate::recover::recover;
use crate::model::Outcome;
use crate::ops::{COp, GenCfg, Policy, SOp};
use crate::runner::Property;
use crate::util::{hash64, wal_number};

pub struct C06;

fn gen_cfg(tier: Tier) -> GenCfg {
    let mut cfg = super::c01::gen_cfg(tier);
    cfg.pool = 5;
    cfg.w_special_names = 3;
    cfg.restart_policies = vec![];
    cfg
}

/// (name, size) of every regular file in the directory.
fn list_dir(dir: &std::path::Path) -> Result<Vec<(String, u64)>, CaseError> {
    let mut entries = Vec::new();
    let read_dir = std::fs::read_dir(dir).map_err(|err| CaseError::Engine(format!("read_dir: {err}")))?;
    for entry in read_dir {
        let entry = entry.map_err(|err| CaseError::Engine(format!("read_dir entry: {err}")))?;
        let meta = entry.metadata().map_err(|err| CaseError::Engine(format!("metadata: {err}")))?;
        entries.push((entry.file_name().to_string_lossy().to_string(), meta.len()));
    }
    entries.sort();
    Ok(entries)
}

impl Property for C06 {
    fn id(&self) -> &'static str {
        "C06"
    }

    fn rule(&self) -> String {
        "generated histories over 2..5 queues with file-sized payloads, truncations, deletions and restarts. The harness records, from the I/O trace and independently of the library's reference counting, \
         the WAL file that was current when each append call began. After every truncate, delete_queue and open: the \
         directory must hold exactly a contiguous run of wal-<n> files ending at the writer's current file; no file \
         numbered below min(A, B) may exist, where A = oldest 'file at append time' over all retained records and B = \
         file that was current when the call began (for open: the file holding the end of the log); and \
         resource_usage().disk_used_bytes == sum of the sizes of the files present. The same audit runs after the open \
         that recovers from a crash, in every other history at crash points inside the calls that rolled over to a new WAL file (those next to a file creation / resize / removal, one in \
         eight of the other effect boundaries and generated write cuts; A then uses the lowest file a record at that queue/position was ever \
         appended in). evaluations = truncate/delete/open calls checked + recovery opens audited. non-trivial = the call unlinked >= 1 file or ran with >= 2 files present; distinct = hash(op \
         index, concrete history)."
            .to_string()
    }

    fn assumptions(&self) -> Vec<String> {
        vec![
            "after a restart a retained record is attributed to the same file as at append time (the file that was current when its entry began)".to_string(),
            "premature deletion is C01's concern; C06 asserts only the upper bound on files kept".to_string(),
        ]
    }

    fn cases(&self, tier: Tier) -> u32 {
        match tier {
            Tier::Quick => 40_000,
            Tier::Thorough => 500_000,
        }
    }

    fn strategy(&self, tier: Tier) -> BoxedStrategy<Case> {
        super::case_strategy(
            &gen_cfg(tier),
            vec![Policy::DEFAULT, Policy::DEFAULT, Policy::DoNothing, Policy::Always { fsync: true }],
            1,
        )
    }

    fn run(&self, case: &Case, env: &mut Env) -> Result<(), CaseError> {
        let dir = env.scratch.fresh("c06");
        let mut exec = Exec::new(&dir, case.policy)?;
        let mut ops = case.ops.clone();
        ops.push(SOp::Restart { policy: None });
        // (queue, position) -> WAL file number that was current when the append began
        let mut origin: BTreeMap<(String, u64), u64> = BTreeMap::new();
        // every origin a (queue, position) ever had, with the op that appended it (for the crash stage)
        let mut origin_history: BTreeMap<(String, u64), Vec<(usize, u64)>> = BTreeMap::new();
        // effect ranges of the calls that created a WAL file (roll-over)
        let mut rollover_ranges: Vec<(usize, usize)> = Vec::new();
        for sop in &ops {
            let step = exec.step(sop)?;
            exec.usable_or_skip(&step)?;
            let begin_file = wal_number(&step.file_at_begin).unwrap_or(0);
            if !matches!(step.cop, COp::Restart { .. }) && exec.effects()[step.effects.clone()].iter().any(|effect| matches!(effect, Effect::Create { .. })) {
                rollover_ranges.push((step.effects.start, step.effects.end));
            }
            match (&step.cop, &step.real.outcome) {
                (COp::Append { q, batch, .. }, Outcome::Appended { last: Some(last) }) => {
                    let first = (last + 1).saturating_sub(batch.len() as u64);
                    for pos in first..=*last {
                        origin.insert((q.text(), pos), begin_file);
                        origin_history.entry((q.text(), pos)).or_default().push((step.idx, begin_file));
                    }
                }
                (COp::Delete { q }, Outcome::Deleted) => {
                    let name = q.text();
                    origin.retain(|(queue, _), _| *queue != name);
                }
                _ => {}
            }
            let is_checked = matches!(
                (&step.cop, &step.real.outcome),
                (COp::Truncate { .. }, Outcome::Truncated { .. }) | (COp::Delete { .. }, Outcome::Deleted) | (COp::Restart { .. }, _)
            );
            if !is_checked {
                continue;
            }
            env.evals(1);
            // retained records as the real log shows them (model-free)
            let observed = exec.driver.observe().map_err(|_| CaseError::Skip("live-state-unobservable".to_string()))?;
            let mut oldest_retained: Option<u64> = None;
            for (name, queue) in &observed {
                for (pos, _) in &queue.recs {
                    if let Some(file) = origin.get(&(name.clone(), *pos)) {
                        oldest_retained = Some(oldest_retained.map_or(*file, |cur: u64| cur.min(*file)));
                    } else {
                        // a retained record the harness never saw appended: not this property's concern
                        return Err(CaseError::Skip("retained-record-of-unknown-origin".to_string()));
                    }
                }
            }
            let current = wal_number(&exec.driver.tracer.cur_name).unwrap_or(0);
            // B: file current when the call began; for open: the file holding the end of the log when open positioned
            // the writer there (recovery's own GC may then roll over into a newer file while it pins that one)
            let begin = if matches!(step.cop, COp::Restart { .. }) {
                wal_number(&exec.driver.tracer.writer_at_open).unwrap_or(current)
            } else {
                begin_file
            };
            let bound = oldest_retained.map_or(begin, |oldest| oldest.min(begin));
            let entries = list_dir(&dir)?;
            let numbers: Vec<u64> = entries.iter().filter_map(|(name, _)| wal_number(name)).collect();
            let fail = |msg: String, signature: &str| {
                Err(exec.failure(
                    format!("after op #{} {}: {msg} (files present: {:?}, writer at file {current}, oldest retained record written in file {:?}, call began in file {begin})",
                        step.idx, step.cop.short(), numbers, oldest_retained),
                    signature,
                    json!({}),
                ))
            };
            if numbers.len() != entries.len() {
                return fail(format!("directory holds non-WAL entries {:?}", entries), "foreign-entry");
            }
            if numbers.is_empty() || *numbers.last().unwrap() != current {
                return fail("the newest WAL file is not the file being written".to_string(), "not-ending-at-current");
            }
            for pair in numbers.windows(2) {
                if pair[1] != pair[0] + 1 {
                    return fail("WAL files are not a contiguous run".to_string(), "not-contiguous");
                }
            }
            if numbers[0] < bound {
                return fail(format!("file {} is older than both bounds (min = {bound}) but still exists", numbers[0]), "file-not-reclaimed");
            }
            let disk: u64 = entries.iter().map(|(_, size)| *size).sum();
            let reported = exec.driver.log.as_ref().unwrap().resource_usage().disk_used_bytes as u64;
            if reported != disk {
                return fail(format!("disk_used_bytes = {reported} but the files total {disk} bytes"), "disk-used-mismatch");
            }
            let unlinked = exec.effects()[step.effects.clone()]
                .iter()
                .filter(|effect| matches!(effect, Effect::Unlink { .. }))
                .count();
            if unlinked > 0 {
                env.class("call-unlinking");
            }
            if numbers.len() >= 2 {
                env.class("call-with-2+-files");
            }
            if numbers.len() >= 3 {
                env.class("call-with-3+-files");
            }
            if unlinked > 0 || numbers.len() >= 2 {
                env.nontrivial(hash64(&(step.idx, &exec.cops)));
                env.sample(|| json!({"call": step.cop.short(), "files_after": numbers, "unlinked": unlinked,
                    "oldest_retained_file": oldest_retained, "call_began_in_file": begin}));
            }
        }
        exec.driver.close()?;
        // Crash stage ("and after open" holds for the open that recovers from a crash too): crash points inside the
        // calls that rolled over to a new WAL file (at most 3 such calls per history), recovery, same audit.
        let replay_crash = super::c02::parse_crash_point(&case.extra);
        // (every other history: the stage costs far more than the live audit)
        if (!rollover_ranges.is_empty() && hash64(&exec.cops) % 2 == 0) || replay_crash.is_some() {
            let effects: Vec<Effect> = exec.effects().to_vec();
            let frames = exec.driver.tracer.frames.clone();
            let crash_dir = env.scratch.fresh("c06-crash");
            let history_hash = hash64(&exec.cops);
            if replay_crash.is_some() {
                rollover_ranges = vec![(0, effects.len())];
            }
            let mut first_d7: Option<CaseError> = None;
            for (lo, hi) in rollover_ranges.iter().take(3) {
                let mut selection = Selection::standard(&case.words);
                selection.exhaustive_below = 0;
                selection.generated_cuts = 1;
                selection.range = Some((*lo, *hi));
                selection.only = replay_crash;
                for_each_crash_point(&Image::default(), &effects, &frames, &selection, |ctx: &CrashCtx| -> Result<(), CaseError> {
                    let extra = json!({"crash": {"k": ctx.point.k, "b": ctx.point.b}});
                    // every crash point next to a file creation / resize / removal, one in eight of the others
                    let namespace_effect = |idx: usize| matches!(effects.get(idx), Some(Effect::Create { .. } | Effect::SetLen { .. } | Effect::Unlink { .. }));
                    let near_namespace_change = namespace_effect(ctx.point.k) || (ctx.point.k > 0 && namespace_effect(ctx.point.k - 1));
                    if replay_crash.is_none() && !near_namespace_change && hash64(&(history_hash, ctx.point.k, ctx.point.b)) % 8 != 0 {
                        return Ok(());
                    }
                    let mut recovered = match recover(ctx.image, &crash_dir, case.policy) {
                        Ok(recovered) => recovered,
                        Err(crate::recover::RecoverError::Engine(msg)) => return Err(CaseError::Engine(msg)),
                        // a recovery that fails is C02's concern
                        Err(_) => return Ok(()),
                    };
                    env.evals(1);
                    let upto = ctx.inflight.filter(|op| *op != usize::MAX).or(ctx.last_completed.filter(|op| *op != usize::MAX));
                    let mut oldest_retained: Option<u64> = None;
                    let mut unknown = false;
                    for (name, queue) in &recovered.state {
                        for (pos, _) in &queue.recs {
                            // the lowest file any record at that (queue, position) was ever appended in so far: a lower
                            // bound of A, which keeps the audit sound when an older incarnation of the queue is recovered
                            let lowest = origin_history
                                .get(&(name.clone(), *pos))
                                .and_then(|list| list.iter().filter(|(op, _)| upto.map_or(false, |upto| *op <= upto)).map(|(_, file)| *file).min());
                            match lowest {
                                Some(file) => oldest_retained = Some(oldest_retained.map_or(file, |cur: u64| cur.min(file))),
                                None => unknown = true,
                            }
                        }
                    }
                    let current = wal_number(&recovered.driver.tracer.cur_name).unwrap_or(0);
                    let begin = wal_number(&recovered.driver.tracer.writer_at_open).unwrap_or(current);
                    let entries = list_dir(&crash_dir)?;
                    let reported = recovered.driver.log.as_ref().unwrap().resource_usage().disk_used_bytes as u64;
                    recovered.driver.close()?;
                    if unknown {
                        env.class("crash:retained-record-of-unknown-origin-skipped");
                        return Ok(());
                    }
                    let bound = oldest_retained.map_or(begin, |oldest| oldest.min(begin));
                    let numbers: Vec<u64> = entries.iter().filter_map(|(name, _)| wal_number(name)).collect();
                    let fail = |msg: String, signature: &str| {
                        Err(exec.failure(
                            format!("crash at effect {} byte {} ({}), then open: {msg} (files present: {:?}, writer at file {current}, oldest retained record written in file {:?}, end of the log found in file {begin})",
                                ctx.point.k, ctx.point.b, ctx.class.name(), numbers, oldest_retained),
                            signature,
                            extra.clone(),
                        ))
                    };
                    if numbers.is_empty() || *numbers.last().unwrap() != current {
                        return fail("the newest WAL file is not the file being written".to_string(), "not-ending-at-current-after-crash");
                    }
                    for pair in numbers.windows(2) {
                        if pair[1] != pair[0] + 1 {
                            return fail("WAL files are not a contiguous run".to_string(), "not-contiguous-after-crash");
                        }
                    }
                    if numbers[0] < bound {
                        // Finding D7 has an exact shape: every file kept below the bound holds nothing but continuation
                        // (Middle / Last) frames of an entry whose first frame was in a file already unlinked. Anything
                        // else kept is a different violation.
                        let only_continuations = numbers.iter().filter(|number| **number < bound).all(|number| {
                            let name = crate::util::wal_name(*number);
                            !frames.iter().any(|frame| frame.name == name && (frame.frame_type == 1 || frame.frame_type == 2))
                        });
                        if only_continuations {
                            let shape: Result<(), CaseError> = fail(
                                format!("file {} holds only continuation frames of an entry whose first file is gone, is older than both bounds (min = {bound}) but still exists", numbers[0]),
                                "continuation-only-file-kept-after-crash",
                            );
                            if env.strict {
                                return shape;
                            }
                            // the search goes on behind this shape: the first instance is handed to the runner at the end
                            // of the case (KNOWN_FINDINGS.txt decides there whether it is known)
                            env.class("crash:d7-shape-set-aside");
                            if first_d7.is_none() {
                                first_d7 = shape.err();
                            }
                            return Ok(());
                        }
                        return fail(format!("file {} is older than both bounds (min = {bound}) but still exists", numbers[0]), "file-not-reclaimed-after-crash");
                    }
                    let disk: u64 = entries.iter().map(|(_, size)| *size).sum();
                    if reported != disk {
                        return fail(format!("disk_used_bytes = {reported} but the files total {disk} bytes"), "disk-used-mismatch-after-crash");
                    }
                    env.class("crash:open-after-crash-in-roll-over-call");
                    if numbers.len() >= 2 || ctx.image.files.len() > numbers.len() {
                        env.nontrivial(crate::util::mix(history_hash, hash64(&(ctx.point.k, ctx.point.b))));
                    }
                    Ok(())
                })?;
            }
            env.scratch.remove(&crash_dir);
            if let Some(shape) = first_d7 {
                env.scratch.remove(&dir);
                return Err(shape);
            }
        }
        env.scratch.remove(&dir);
        Ok(())
    }
}
