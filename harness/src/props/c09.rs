//! C09 — frame payload damage costs only the entry it hits.

use proptest::strategy::BoxedStrategy;
use serde_json::json;

use crate::case::{ops_sample, Case, CaseError, Env, Tier};
use crate::damage::{apply, live_frames, payload_or_crc_damage, CDamage, Extras};
use crate::exec::Exec;
use crate::iotrace::{FrameInfo, Image};
use crate::model::{describe_state, Outcome};
use crate::ops::{COp, GenCfg, Policy, SOp};
use crate::recover::recover;
use crate::runner::Property;
use crate::util::{hash64, mix, splitmix, BLOCK, FRAME_HEADER};

pub struct C09;

fn gen_cfg(tier: Tier) -> GenCfg {
    let mut cfg = super::c01::gen_cfg(tier);
    cfg.max_ops = if tier == Tier::Quick { 36 } else { 60 };
    cfg.restart_policies = vec![];
    cfg.w_restart = 5;
    cfg.w_delete = 6;
    cfg.w_create = 9;
    cfg.w_len.huge = 0;
    cfg.w_recreate_motif = 20;
    cfg.w_aligned_batch = 6;
    cfg.w_len.fileish = 8;
    cfg.w_special_names = 1;
    cfg
}

impl Property for C09 {
    fn id(&self) -> &'static str {
        "C09"
    }

    fn level(&self) -> &'static str {
        "fault_enumeration"
    }

    fn rule(&self) -> String {
        "generated histories (restarts, GC position records, delete / re-create, multi-frame batches) are run to a clean \
         WAL image; then EVERY frame still present in that image (all when <= 400, else a generated stride subset) is \
         damaged in turn by an alteration of 1..n bytes confined to that frame's payload or CRC bytes (bit flip + xor, \
         zero-fill, xor run; lengths 1, <=8, <=64, whole payload). Oracle: open returns Ok and every record the undamaged log \
         returned after its final clean restart, and whose append call did not write the damaged frame, is present, byte-identical (additional records or \
         queues brought back because the damaged frame WAS a truncate / delete entry are allowed; but a queue that does not \
         exist at the end of the undamaged history may exist after recovery only if the damaged frame was written by the \
         delete_queue call for that name: an entry that was not hit keeps its effect). evaluations = \
         damaged images opened. non-trivial = the damaged frame belongs to a control entry (create / position / truncate \
         / delete), or is a First/Middle/Last frame of a multi-frame entry, or touches a block end, or belongs to an \
         entry written before a delete+re-create of its queue; distinct = hash(history, damage)."
            .to_string()
    }

    fn assumptions(&self) -> Vec<String> {
        vec![
            "frame layout (file, offset, payload length, owning call) is read off the hook's write events".to_string(),
            "up to a CRC-32 collision".to_string(),
        ]
    }

    fn cases(&self, tier: Tier) -> u32 {
        match tier {
            Tier::Quick => 8_000,
            Tier::Thorough => 300_000,
        }
    }

    fn max_shrink_iters(&self) -> u32 {
        400
    }

    fn strategy(&self, tier: Tier) -> BoxedStrategy<Case> {
        super::case_strategy(&gen_cfg(tier), vec![Policy::DEFAULT, Policy::DEFAULT, Policy::DoNothing], 4)
    }

    fn run(&self, case: &Case, env: &mut Env) -> Result<(), CaseError> {
        let dir = env.scratch.fresh("c09");
        let mut exec = Exec::new(&dir, case.policy)?;
        exec.keep_appended = true;
        let mut outcomes: Vec<Outcome> = Vec::new();
        let mut ops = case.ops.clone();
        ops.push(SOp::Restart { policy: None });
        let mut recreated_queues: std::collections::BTreeSet<String> = Default::default();
        let mut deleted: std::collections::BTreeSet<String> = Default::default();
        for sop in &ops {
            let step = exec.step(sop)?;
            exec.usable_or_skip(&step)?;
            match (&step.cop, &step.real.outcome) {
                (COp::Delete { q }, Outcome::Deleted) => {
                    deleted.insert(q.text());
                }
                (COp::Create { q }, Outcome::Created) => {
                    if deleted.contains(&q.text()) {
                        recreated_queues.insert(q.text());
                    }
                }
                _ => {}
            }
            outcomes.push(step.real.outcome.clone());
        }
        // the retained records as the real log shows them after the final clean restart (model-free)
        let final_state = match exec.driver.observe() {
            Ok(state) => state,
            Err(_) => return Err(CaseError::Skip("live-state-unobservable".to_string())),
        };
        exec.driver.close()?;
        let final_image = exec.selfcheck_image(&Image::default())?;
        let appended = super::c03::really_appended_index(&exec.really_appended);
        let frames = exec.driver.tracer.frames.clone();
        let live = live_frames(&frames, &final_image);
        let history_hash = hash64(&exec.cops);
        let crash_dir = env.scratch.fresh("c09-damaged");
        let mut word_state = case.words.iter().fold(0xC09_u64, |acc, word| acc.rotate_left(9) ^ *word as u64);
        let replay_damage: Option<CDamage> = case.extra.as_ref().and_then(|extra| extra.get("damage")).and_then(|value| serde_json::from_value(value.clone()).ok());
        let replay_frame_op: Option<usize> = case.extra.as_ref().and_then(|extra| extra.get("frame_op")).and_then(|value| value.as_u64()).map(|value| value as usize);
        let stride = (live.len() / 400).max(1);
        let offset = (splitmix(&mut word_state) % stride as u64) as usize;
        let selected: Vec<(CDamage, Option<FrameInfo>, usize)> = match replay_damage {
            Some(damage) => vec![(damage, None, replay_frame_op.unwrap_or(usize::MAX))],
            None => live
                .iter()
                .enumerate()
                .filter(|(idx, _)| idx % stride == offset)
                .map(|(_, frame)| {
                    let (damage, _) = payload_or_crc_damage(frame, &final_image, splitmix(&mut word_state));
                    (damage, Some(frame.clone()), frame.op)
                })
                .collect(),
        };
        for (damage, frame, frame_op) in selected {
            env.evals(1);
            let mut image = final_image.clone();
            if !apply(&mut image, &mut Extras::default(), &damage) {
                return Err(CaseError::Engine(format!("damage {damage:?} changed nothing")));
            }
            let extra = json!({"damage": damage, "frame_op": frame_op});
            let owner_is_append = exec.cops.get(frame_op).map_or(false, |cop| matches!(cop, COp::Append { .. }));
            let what = format!("{} (frame written by call {})", super::c12::describe_damage(&damage),
                exec.cops.get(frame_op).map(|cop| format!("#{frame_op} {}", cop.short())).unwrap_or_else(|| "initial open".to_string()));
            let state = match recover(&image, &crash_dir, case.policy) {
                Ok(mut recovered) => {
                    recovered.driver.close()?;
                    recovered.state
                }
                Err(err) => {
                    let (msg, signature) = err.into_case_error()?;
                    return Err(exec.failure(format!("{what}: {msg}"), signature, extra));
                }
            };
            for (name, queue) in &final_state {
                for (pos, bytes) in &queue.recs {
                    let owner = appended
                        .get(&(name.clone(), *pos))
                        .and_then(|list| list.iter().filter(|(_, payload)| payload == bytes).map(|(op, _)| *op).max());
                    if owner_is_append && owner == Some(frame_op) {
                        continue;
                    }
                    let found = state.get(name).and_then(|got| got.recs.iter().find(|(other, _)| other == pos));
                    match found {
                        Some((_, got_bytes)) if got_bytes == bytes => {}
                        Some(_) => {
                            return Err(exec.failure(format!("{what}: record {name:?}@{pos} (appended by call #{owner:?}, not hit) came back with a different payload"), "unrelated-record-changed", extra));
                        }
                        None => {
                            return Err(exec.failure(format!("{what}: record {name:?}@{pos} (appended by call #{owner:?}, not hit) is lost; recovered {}", describe_state(&state)), "unrelated-record-lost", extra));
                        }
                    }
                }
            }
            // "at most the one entry": an entry that was NOT hit keeps its effect. The one effect that shows as something
            // present rather than missing is a deletion: a queue that does not exist at the end of the undamaged history may
            // exist after recovery only if the damaged frame was written by a delete_queue call for that very name.
            for name in state.keys() {
                if final_state.contains_key(name) {
                    continue;
                }
                let hit_its_deletion = matches!(exec.cops.get(frame_op), Some(COp::Delete { q }) if q.text() == *name);
                if !hit_its_deletion {
                    return Err(exec.failure(
                        format!("{what}: queue {name:?} does not exist at the end of the undamaged history (its DeleteQueue entry was not hit) but exists after recovery: {}", describe_state(&state)),
                        "deleted-queue-back-although-its-deletion-was-not-hit",
                        extra,
                    ));
                }
            }
            if let Some(frame) = frame {
                let mut nontrivial = false;
                if frame.frame_type != 1 {
                    env.class("damaged:first-middle-last-frame");
                    nontrivial = true;
                }
                if !owner_is_append {
                    env.class("damaged:control-entry");
                    nontrivial = true;
                }
                let frame_end = frame.off as usize + FRAME_HEADER + frame.payload_len;
                if frame_end % BLOCK == 0 || BLOCK - frame_end % BLOCK < FRAME_HEADER || frame.off as usize % BLOCK == 0 {
                    env.class("damaged:frame-adjacent-to-block-end");
                    nontrivial = true;
                }
                if let Some(q) = exec.cops.get(frame_op).and_then(|cop| cop.queue()) {
                    if recreated_queues.contains(&q.text()) {
                        env.class("damaged:entry-of-a-deleted-and-recreated-queue");
                        nontrivial = true;
                    }
                }
                if frame.frame_type == 1 && owner_is_append {
                    env.class("damaged:single-frame-append");
                }
                if nontrivial {
                    env.nontrivial(mix(history_hash, hash64(&damage)));
                    env.sample(|| json!({"ops": ops_sample(&exec.cops), "damage": what, "recovered": describe_state(&state)}));
                }
            }
        }
        env.scratch.remove(&dir);
        env.scratch.remove(&crash_dir);
        Ok(())
    }
}
