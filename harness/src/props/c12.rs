//! C12 — a batch append is all-or-nothing across crashes and damage.

use std::collections::{BTreeMap, BTreeSet};

use proptest::strategy::BoxedStrategy;
use serde_json::json;

use crate::case::{ops_sample, Case, CaseError, Env, Tier};
use crate::crash::{for_each_crash_point, CrashClass, CrashCtx, Selection};
use crate::damage::{apply, live_frames, CDamage, Extras};
use crate::exec::Exec;
use crate::iotrace::{Effect, Image};
use crate::model::{Bytes, Outcome, State};
use crate::ops::{COp, GenCfg, Policy};
use crate::recover::recover;
use crate::runner::Property;
use crate::util::{hash64, mix, splitmix};

pub struct C12;

fn gen_cfg(tier: Tier) -> GenCfg {
    let mut cfg = super::c01::gen_cfg(tier);
    cfg.max_ops = if tier == Tier::Quick { 22 } else { 36 };
    cfg.restart_policies = vec![];
    cfg.w_delete = 3;
    cfg.w_create = 7;
    cfg.w_restart = 3;
    cfg.w_persist = 0;
    cfg.w_append = 60;
    cfg.w_truncate = 22;
    cfg.w_multi_batch = 88;
    cfg.max_batch = 8;
    cfg.w_special_names = 0;
    cfg.w_missing_names = 1;
    cfg.w_len.huge = 0;
    cfg.w_recreate_motif = 30;
    cfg.w_aligned_batch = 12;
    cfg.w_len.fileish = 8;
    cfg.w_len.blockish = 24;
    cfg.w_len.medium = 20;
    cfg.w_len.aim_block = 12;
    cfg.w_len.aim_file = 8;
    cfg
}

pub struct Batch {
    pub op: usize,
    pub queue: String,
    pub first: u64,
    pub payloads: Vec<Bytes>,
    pub frames: usize,
    pub files: usize,
    /// Every payload is >= 8 pseudo-random bytes: a recovered record can be attributed to this batch by its bytes.
    pub identifiable: bool,
}

/// All-or-nothing oracle over every batch of the history.
pub fn check_batches(batches: &[Batch], truncs: &BTreeMap<String, BTreeSet<u64>>, reused: &BTreeSet<String>, got: &State) -> Result<(), String> {
    for batch in batches {
        let Some(queue) = got.get(&batch.queue) else {
            continue;
        };
        let count = batch.payloads.len() as u64;
        let end = batch.first + count; // exclusive
        // When the queue name was deleted and re-created, positions may belong to several batches: a recovered record
        // is then attributed to this batch by its bytes, and batches with non-identifying payloads are not judged.
        let name_reused = reused.contains(&batch.queue);
        if name_reused && !batch.identifiable {
            continue;
        }
        let recovered: Vec<&(u64, Bytes)> = queue
            .recs
            .iter()
            .filter(|(pos, bytes)| {
                *pos >= batch.first && *pos < end && (!name_reused || *bytes == batch.payloads[(*pos - batch.first) as usize])
            })
            .collect();
        if recovered.is_empty() {
            continue;
        }
        let first_recovered = recovered[0].0;
        let describe = || {
            let positions: Vec<u64> = recovered.iter().map(|(pos, _)| *pos).collect();
            format!("batch of {count} records appended to {:?} at positions {}..={} (call #{}): recovered positions {:?}",
                batch.queue, batch.first, end - 1, batch.op, positions)
        };
        // must be a suffix: first_recovered .. end-1, contiguous
        if recovered.len() as u64 != end - first_recovered {
            return Err(format!("{}: not all-or-nothing (hole or missing tail)", describe()));
        }
        for (offset, (pos, bytes)) in recovered.iter().enumerate() {
            let expected_pos = first_recovered + offset as u64;
            if *pos != expected_pos {
                return Err(format!("{}: not all-or-nothing (hole)", describe()));
            }
            let expected = &batch.payloads[(expected_pos - batch.first) as usize];
            if bytes != expected {
                return Err(format!("{}: payload at position {pos} differs from what was appended", describe()));
            }
        }
        if first_recovered != batch.first {
            let legit = truncs.get(&batch.queue).map_or(false, |set| set.contains(&(first_recovered - 1)));
            if !legit {
                return Err(format!("{}: leading records are missing although no truncate(..={}) was ever requested", describe(), first_recovered - 1));
            }
        }
    }
    Ok(())
}

impl Property for C12 {
    fn id(&self) -> &'static str {
        "C12"
    }

    fn level(&self) -> &'static str {
        "fault_enumeration"
    }

    fn rule(&self) -> String {
        "generated histories dominated by batches of 0..8 records (sizes 0..150 KiB, aimed block/file alignments so that \
         entries are multi-frame and cross block and file boundaries), interleaved truncations, restarts and some queue deletions / re-creations (for a re-used queue name a \
         recovered record is attributed to a batch by its bytes, and only batches whose payloads are all >= 8 pseudo-random \
         bytes are judged), under Always(Flush). (a) crash points ENUMERATED over the \
         recorded I/O trace: every effect boundary, every frame boundary, cuts inside headers and payloads, between files. \
         When a crash falls exactly between two frames of a batch, the recovered log additionally gets one entry \
         whose serialized size is exactly what the record cut by that frame boundary lacked, and is restarted: no part of the \
         crashed batch may surface. (b) for every frame still present in the final WAL image (<= 300 per history, else a generated subset) one aimed \
         damage of that single frame (crc / len / type / payload bytes), plus 8 images with 2..4 in-place damages each (aimed \
         and unaimed). Oracle after every recovery, for EVERY batch of \
         the history: the recovered positions of its queue inside the batch's range are none, or exactly a suffix ending \
         at the batch's last position whose start is the batch start or t+1 for a truncate(..=t) requested by the \
         history, with identical payloads. A failing open counts as 'none'. evaluations = recoveries checked. non-trivial \
         = crash strictly inside, or damage of a frame of, a batch of >= 2 records written as >= 2 frames; distinct = \
         hash(history, crash point | damage)."
            .to_string()
    }

    fn assumptions(&self) -> Vec<String> {
        vec![
            "process-crash model as in C02; damage is in place (file lengths unchanged)".to_string(),
            "up to a CRC-32 collision".to_string(),
        ]
    }

    fn cases(&self, tier: Tier) -> u32 {
        match tier {
            Tier::Quick => 1_600,
            Tier::Thorough => 40_000,
        }
    }

    fn max_shrink_iters(&self) -> u32 {
        400
    }

    fn strategy(&self, tier: Tier) -> BoxedStrategy<Case> {
        super::case_strategy(&gen_cfg(tier), vec![Policy::Always { fsync: false }], 6)
    }

    fn run(&self, case: &Case, env: &mut Env) -> Result<(), CaseError> {
        let dir = env.scratch.fresh("c12");
        let mut exec = Exec::new(&dir, case.policy)?;
        let mut batches: Vec<Batch> = Vec::new();
        let mut truncs: BTreeMap<String, BTreeSet<u64>> = BTreeMap::new();
        // queue names that were deleted at some point (their positions may be used by several incarnations)
        let mut reused: BTreeSet<String> = BTreeSet::new();
        for sop in &case.ops {
            let cop = exec.resolve(sop);
            let payloads: Vec<Bytes> = match &cop {
                COp::Append { batch, .. } => batch.iter().map(|pay| std::rc::Rc::from(pay.bytes())).collect(),
                _ => Vec::new(),
            };
            let frames_before = exec.driver.tracer.frames.len();
            let step = exec.step_concrete(cop)?;
            exec.usable_or_skip(&step)?;
            match (&step.cop, &step.real.outcome) {
                (COp::Append { q, .. }, Outcome::Appended { last: Some(last) }) => {
                    let frames = &exec.driver.tracer.frames[frames_before..];
                    let files: BTreeSet<&String> = frames.iter().map(|frame| &frame.name).collect();
                    batches.push(Batch {
                        op: step.idx,
                        queue: q.text(),
                        first: (last + 1).saturating_sub(payloads.len() as u64),
                        payloads,
                        frames: frames.len(),
                        files: files.len(),
                        identifiable: match &step.cop {
                            COp::Append { batch, .. } => batch.iter().all(|pay| pay.len >= 8 && pay.style == 0),
                            _ => false,
                        },
                    });
                }
                // "requested by the history": whatever the call answered
                (COp::Truncate { q, pos }, _) => {
                    truncs.entry(q.text()).or_default().insert(*pos);
                }
                (COp::Delete { q }, Outcome::Deleted) => {
                    reused.insert(q.text());
                }
                _ => {}
            }
        }
        exec.driver.close()?;
        let final_image = exec.selfcheck_image(&Image::default())?;
        let effects: Vec<Effect> = exec.effects().to_vec();
        let frames = exec.driver.tracer.frames.clone();
        let history_hash = hash64(&exec.cops);
        let crash_dir = env.scratch.fresh("c12-crash");
        let multi_frame_batch_ops: BTreeSet<usize> = batches.iter().filter(|batch| batch.payloads.len() >= 2 && batch.frames >= 2).map(|batch| batch.op).collect();
        let two_file_batch_ops: BTreeSet<usize> = batches.iter().filter(|batch| batch.files >= 2).map(|batch| batch.op).collect();
        let replay_damages: Option<Vec<CDamage>> = case.extra.as_ref().and_then(|extra| extra.get("damages")).and_then(|value| serde_json::from_value(value.clone()).ok());
        let replay_crash = super::c02::parse_crash_point(&case.extra);

        // (a) crashes
        if replay_damages.is_none() {
            let mut selection = Selection::standard(&case.words);
            selection.exhaustive_below = 1_500;
            selection.only = replay_crash;
            for_each_crash_point(&Image::default(), &effects, &frames, &selection, |ctx: &CrashCtx| -> Result<(), CaseError> {
                env.evals(1);
                let extra = json!({"crash": {"k": ctx.point.k, "b": ctx.point.b}});
                let where_ = format!("crash at effect {} byte {} ({})", ctx.point.k, ctx.point.b, ctx.class.name());
                let state = match recover(ctx.image, &crash_dir, case.policy) {
                    Ok(mut recovered) => {
                        // "Completing" probe: when the crash fell exactly between two frames of a batch, the log holds the
                        // head of that batch without its tail. Append, on the recovered log, one entry whose serialized
                        // size is exactly what the record cut by the frame boundary still lacked, and restart: a reader
                        // that glued the new entry onto the torn head would expose part of the crashed batch.
                        let mut probed: Option<crate::model::State> = None;
                        if ctx.class == CrashClass::BetweenFramesOfEntry {
                            if let (Some(op), Some(Effect::OsWrite { name, off, .. })) = (ctx.inflight, effects.get(ctx.point.k)) {
                                if let Some(batch) = batches.iter().find(|batch| batch.op == op && batch.payloads.len() >= 2) {
                                    let cut = *off + ctx.point.b as u64;
                                    let held: usize = frames
                                        .iter()
                                        .filter(|frame| frame.op == op && (frame.name != *name || frame.off + (7 + frame.payload_len) as u64 <= cut))
                                        .filter(|frame| frame.name < *name || frame.name == *name)
                                        .map(|frame| frame.payload_len)
                                        .sum();
                                    let prefix = 11 + batch.queue.len();
                                    let mut boundary = prefix;
                                    for payload in &batch.payloads {
                                        if boundary >= held && boundary > prefix {
                                            break;
                                        }
                                        boundary += 12 + payload.len();
                                    }
                                    let missing = boundary.saturating_sub(held);
                                    let overhead = 11 + batch.queue.len() + 12;
                                    if held > prefix && missing >= overhead && missing < 30_000 {
                                        let payload = crate::util::fill(0xC12C ^ held as u64, missing - overhead, 0);
                                        let appended = {
                                            let log = recovered.driver.log.as_mut().unwrap();
                                            crate::util::guarded(|| log.append_record(&batch.queue, None, &payload[..]).is_ok())
                                        };
                                        let _ = recovered.driver.tracer.feed(mrecordlog::verif_hooks::take_events());
                                        recovered.driver.close()?;
                                        if appended == Ok(true) {
                                            env.class("crash:completing-entry-probe");
                                            if let Ok(mut second) = crate::recover::recover_dir(&crash_dir, case.policy) {
                                                second.driver.close()?;
                                                probed = Some(second.state);
                                            }
                                        }
                                    }
                                }
                            }
                        }
                        recovered.driver.close()?;
                        if let Some(second_state) = probed {
                            // the probe record legitimately takes the position the crashed batch never got: on that queue a
                            // recovered record belongs to a batch only if it carries that batch's bytes
                            let mut reused_here = reused.clone();
                            if let Some(op) = ctx.inflight {
                                if let Some(batch) = batches.iter().find(|batch| batch.op == op) {
                                    reused_here.insert(batch.queue.clone());
                                }
                            }
                            if let Err(msg) = check_batches(&batches, &truncs, &reused_here, &second_state) {
                                return Err(exec.failure(
                                    format!("{where_}, then recovery, then an entry of exactly the size the torn record lacked, then a restart: {msg}"),
                                    "batch-not-atomic-after-crash-and-completing-entry",
                                    extra,
                                ));
                            }
                        }
                        recovered.state
                    }
                    Err(crate::recover::RecoverError::Engine(msg)) => return Err(CaseError::Engine(msg)),
                    Err(_) => {
                        // C02 owns "open must succeed after a crash"; for C12 a failed open recovers nothing
                        let _ = (&where_, &extra);
                        env.class("crash:open-failed-counts-as-none");
                        return Ok(());
                    }
                };
                if let Err(msg) = check_batches(&batches, &truncs, &reused, &state) {
                    return Err(exec.failure(format!("{where_}: {msg}"), "batch-not-atomic-after-crash", extra));
                }
                env.class("crash-recovery");
                if let Some(op) = ctx.inflight {
                    if ctx.class != CrashClass::BetweenOps && multi_frame_batch_ops.contains(&op) {
                        env.class("crash-inside-multi-frame-batch");
                        if two_file_batch_ops.contains(&op) {
                            env.class("crash-inside-batch-spanning-2-files");
                            if ctx.class == CrashClass::InsideRollover {
                                env.class("crash-between-files-of-a-batch");
                            }
                        }
                        env.nontrivial(mix(history_hash, hash64(&ctx.point)));
                        env.sample(|| json!({"ops": ops_sample(&exec.cops), "crash": where_, "inflight_call": exec.cops[op].short()}));
                    }
                }
                Ok(())
            })?;
        }

        // (b) single-frame damage on the final image
        if replay_crash.is_none() {
            let live = live_frames(&frames, &final_image);
            let mut word_state = case.words.iter().fold(0xC12_u64, |acc, word| acc.rotate_left(11) ^ *word as u64);
            let stride = (live.len() / 300).max(1);
            let offset = (splitmix(&mut word_state) % stride as u64) as usize;
            let mut damages: Vec<(Vec<CDamage>, Option<usize>, &'static str)> = match &replay_damages {
                Some(list) => vec![(list.clone(), None, "replay")],
                None => live
                    .iter()
                    .enumerate()
                    .filter(|(idx, _)| idx % stride == offset)
                    .map(|(_, frame)| {
                        let (damage, field) = crate::damage::aimed_damage_in_context(frame, &live, &final_image, splitmix(&mut word_state));
                        (vec![damage], Some(frame.op), field.name())
                    })
                    .collect(),
            };
            if replay_damages.is_none() && !live.is_empty() {
                // "any in-place damage": also 8 images with 2..4 damages each (aimed + unaimed)
                let extents = crate::damage::written_extent(&frames, &final_image);
                for _ in 0..8 {
                    let count = 2 + splitmix(&mut word_state) % 3;
                    let mut list = Vec::new();
                    let mut op = None;
                    for _ in 0..count {
                        if splitmix(&mut word_state) % 2 == 0 {
                            let frame = &live[(splitmix(&mut word_state) % live.len() as u64) as usize];
                            list.push(crate::damage::aimed_damage_in_context(frame, &live, &final_image, splitmix(&mut word_state)).0);
                            op = Some(frame.op);
                        } else if let Some(damage) = crate::damage::random_inplace_damage(&final_image, &extents, splitmix(&mut word_state)) {
                            list.push(damage);
                        }
                    }
                    damages.push((list, op, "multi"));
                }
            }
            for (damage_list, frame_op, field) in damages {
                env.evals(1);
                let mut image = final_image.clone();
                let mut extras = Extras::default();
                let mut changed = false;
                for damage in &damage_list {
                    changed |= apply(&mut image, &mut extras, damage);
                }
                if !changed {
                    continue;
                }
                let damage = damage_list.clone();
                let extra = json!({"damages": damage});
                let state = match recover(&image, &crash_dir, case.policy) {
                    Ok(mut recovered) => {
                        // Second stage (a frame-header field of a multi-frame batch damaged; always for the type byte, one
                        // in four otherwise): the history goes on, on the damaged log — a batch of the same sizes (other
                        // bytes) is appended to the same queue — and crashes at every point inside that call; each image
                        // is recovered: the old batch and the new one must each be all-or-nothing (frames of the damaged
                        // batch still lying behind the write cursor must never complete the head of the new one).
                        let hit_batch = match (damage_list.len(), frame_op) {
                            (1, Some(op)) if multi_frame_batch_ops.contains(&op) => batches.iter().find(|batch| batch.op == op),
                            _ => None,
                        };
                        let second_stage = hit_batch.is_some()
                            && field != "payload"
                            && (field == "type" || mix(history_hash, hash64(&damage_list)) % 4 == 0);
                        if let (true, Some(batch)) = (second_stage, hit_batch) {
                            let new_payloads: Vec<Bytes> = batch
                                .payloads
                                .iter()
                                .enumerate()
                                .map(|(idx, payload)| Bytes::from(crate::util::fill(0x5EC0 ^ idx as u64, payload.len(), 0)))
                                .collect();
                            let appended = {
                                let log = recovered.driver.log.as_mut().unwrap();
                                recovered.driver.tracer.begin_op(5000);
                                let res = crate::util::guarded(|| log.append_records(&batch.queue, None, new_payloads.iter().map(|payload| &payload[..])).map(|outcome| outcome.last_position).ok().flatten());
                                let fed = recovered.driver.tracer.feed(mrecordlog::verif_hooks::take_events());
                                recovered.driver.tracer.end_op(5000);
                                fed.map_err(CaseError::Engine)?;
                                res
                            };
                            recovered.driver.close()?;
                            if let Ok(Some(last)) = appended {
                                let effects2: Vec<Effect> = recovered.driver.tracer.effects.clone();
                                let frames2 = recovered.driver.tracer.frames.clone();
                                let lo = effects2.iter().position(|effect| matches!(effect, Effect::OpBegin { op: 5000 }));
                                let hi = effects2.iter().position(|effect| matches!(effect, Effect::OpEnd { op: 5000 }));
                                if let (Some(lo), Some(hi)) = (lo, hi) {
                                    let mut batches2: Vec<&Batch> = batches.iter().collect();
                                    let count = new_payloads.len() as u64;
                                    let new_batch = Batch {
                                        op: 5000,
                                        queue: batch.queue.clone(),
                                        first: (last + 1).saturating_sub(count),
                                        payloads: new_payloads.clone(),
                                        frames: 2,
                                        files: 1,
                                        identifiable: new_payloads.iter().all(|payload| payload.len() >= 8),
                                    };
                                    batches2.push(&new_batch);
                                    let mut reused2 = reused.clone();
                                    reused2.insert(batch.queue.clone());
                                    let mut selection = Selection::standard(&case.words);
                                    selection.exhaustive_below = 0;
                                    selection.generated_cuts = 1;
                                    selection.range = Some((lo, hi));
                                    let crash_dir2 = env.scratch.fresh("c12-damage-then-crash");
                                    let described: Vec<String> = damage_list.iter().map(describe_damage).collect();
                                    for_each_crash_point(&image, &effects2, &frames2, &selection, |ctx: &CrashCtx| -> Result<(), CaseError> {
                                        if !ctx.class.strictly_inside_op() {
                                            return Ok(());
                                        }
                                        env.evals(1);
                                        let state2 = match recover(ctx.image, &crash_dir2, case.policy) {
                                            Ok(mut again) => {
                                                again.driver.close()?;
                                                again.state
                                            }
                                            Err(crate::recover::RecoverError::Engine(msg)) => return Err(CaseError::Engine(msg)),
                                            Err(_) => return Ok(()),
                                        };
                                        env.class("damage-then-append-then-crash");
                                        for judged in &batches2 {
                                            if let Err(msg) = check_batches(std::slice::from_ref(*judged), &truncs, &reused2, &state2) {
                                                return Err(exec.failure(
                                                    format!("in-place damage ({field}) {described:?}, open, then a batch of the same sizes appended to {:?} and a crash inside that call at effect {} byte {} ({}): {msg}",
                                                        batch.queue, ctx.point.k, ctx.point.b, ctx.class.name()),
                                                    "batch-not-atomic-after-damage-then-crash",
                                                    json!({"damages": damage_list, "second_stage": true}),
                                                ));
                                            }
                                        }
                                        Ok(())
                                    })?;
                                    env.scratch.remove(&crash_dir2);
                                }
                            }
                        } else {
                            recovered.driver.close()?;
                        }
                        recovered.state
                    }
                    Err(err) => {
                        match err {
                            crate::recover::RecoverError::OpenFailed(_) => {
                                env.class("damage:open-returned-error");
                                continue;
                            }
                            other => {
                                // a panic on damaged input is C10's concern
                                let _ = other;
                                env.class("damage:open-panicked-skipped");
                                continue;
                            }
                        }
                    }
                };
                if let Err(msg) = check_batches(&batches, &truncs, &reused, &state) {
                    return Err(exec.failure(format!("in-place damage ({field}) {:?}: {msg}", damage.iter().map(describe_damage).collect::<Vec<_>>()), "batch-not-atomic-after-damage", extra));
                }
                env.class(&format!("damage:{field}"));
                if let Some(op) = frame_op {
                    if multi_frame_batch_ops.contains(&op) {
                        env.class("damage-inside-multi-frame-batch");
                        env.nontrivial(mix(history_hash, hash64(&damage)));
                    }
                }
            }
        }
        env.scratch.remove(&dir);
        env.scratch.remove(&crash_dir);
        Ok(())
    }
}

pub fn describe_damage(damage: &CDamage) -> String {
    match damage {
        CDamage::Write { name, off, hex } => format!("overwrite {} bytes at {name}@{off}", hex.len() / 2),
        CDamage::Fill { name, off, len, byte } => format!("fill {len} bytes with {byte:#x} at {name}@{off}"),
        other => format!("{other:?}"),
    }
}
