//! C11 — open terminates and reports I/O failures during recovery.

use std::io::ErrorKind;

use mrecordlog::verif_hooks::{self, FaultPlan, Site};
use proptest::strategy::BoxedStrategy;
use serde_json::json;

use crate::case::{ops_sample, Case, CaseError, Env, Tier};
use crate::driver::open_log;
use crate::exec::Exec;
use crate::iotrace::Image;
use crate::ops::{GenCfg, Policy, SOp};
use crate::runner::Property;
use crate::util::{hash64, mix, splitmix};

pub struct C11;

fn gen_cfg(tier: Tier) -> GenCfg {
    let mut cfg = super::c01::gen_cfg(tier);
    cfg.max_ops = if tier == Tier::Quick { 24 } else { 40 };
    cfg.restart_policies = vec![];
    cfg.w_truncate = 8;
    cfg.w_delete = 2;
    cfg.w_restart = 3;
    cfg.w_len.huge = 2;
    cfg.w_len.fileish = 22;
    cfg.w_len.blockish = 24;
    cfg.w_special_names = 0;
    cfg
}

const KINDS: [(&str, ErrorKind); 10] = [
    ("Interrupted", ErrorKind::Interrupted),
    ("NotFound", ErrorKind::NotFound),
    ("PermissionDenied", ErrorKind::PermissionDenied),
    ("Other", ErrorKind::Other),
    ("InvalidData", ErrorKind::InvalidData),
    ("TimedOut", ErrorKind::TimedOut),
    ("WouldBlock", ErrorKind::WouldBlock),
    ("BrokenPipe", ErrorKind::BrokenPipe),
    ("OutOfMemory", ErrorKind::OutOfMemory),
    ("UnexpectedEof", ErrorKind::UnexpectedEof),
];

fn kind_by_name(name: &str) -> ErrorKind {
    KINDS.iter().find(|(text, _)| *text == name).map(|(_, kind)| *kind).unwrap_or(ErrorKind::Other)
}

fn is_read_site(site: Site) -> bool {
    matches!(site, Site::ReadFirstBlock | Site::ReadBlock)
}

impl Property for C11 {
    fn id(&self) -> &'static str {
        "C11"
    }

    fn level(&self) -> &'static str {
        "fault_enumeration"
    }

    fn rule(&self) -> String {
        "generated histories that keep several WAL files alive are run to a clean image (1..6 files); a dry-run open counts \
         the N calls recovery makes to its I/O sites (read_dir, each directory entry, file_type, open of a WAL file, first \
         block read, every later block read); then EXHAUSTIVELY for every n < N x {transient, persistent} the real open runs \
         with call n failing with a generated io::ErrorKind (any of 10 kinds incl. Interrupted — injected at the site, before the system call; \
         UnexpectedEof never on read sites, where it means 'short file'). One image in three is additionally damaged in \
         place (1..2 aimed frame damages) so that recovery's skip-the-bad-block paths run while the fault is injected (images \
         that no longer open at all are skipped). Oracle: open returns Err(ReadRecordError::IoError); the hook's re-entry counter (10 000 \
         re-entries of a persistently failing site) never trips. evaluations = faulted opens. non-trivial = the fault hits \
         the open or a read of a non-first WAL file; distinct = hash(history, n, persistence, kind)."
            .to_string()
    }

    fn assumptions(&self) -> Vec<String> {
        vec![
            "faults are injected before the real system call at the instrumented sites of src/rolling/directory.rs; a loop that never reaches an instrumented site is only caught by the run's wall-clock guard".to_string(),
        ]
    }

    fn cases(&self, tier: Tier) -> u32 {
        match tier {
            Tier::Quick => 1_500,
            Tier::Thorough => 30_000,
        }
    }

    fn max_shrink_iters(&self) -> u32 {
        600
    }

    fn hang_is_violation(&self) -> bool {
        true
    }

    fn strategy(&self, tier: Tier) -> BoxedStrategy<Case> {
        super::case_strategy(&gen_cfg(tier), vec![Policy::DEFAULT], 4)
    }

    fn run(&self, case: &Case, env: &mut Env) -> Result<(), CaseError> {
        let dir = env.scratch.fresh("c11");
        let mut exec = Exec::new(&dir, case.policy)?;
        let mut ops = case.ops.clone();
        ops.push(SOp::Restart { policy: None });
        for sop in &ops {
            let step = exec.step(sop)?;
            exec.usable_or_skip(&step)?;
        }
        exec.driver.close()?;
        let mut image = Image::from_dir(&dir).map_err(|err| CaseError::Engine(format!("read dir: {err}")))?;
        let mut word_state = case.words.iter().fold(0xC11_u64, |acc, word| acc.rotate_left(5) ^ *word as u64);
        // One image in three is additionally DAMAGED in place (0..2 aimed damages): recovery then also walks its
        // skip-the-bad-block paths while the fault is injected. Replays carry the damage list.
        let replay_damages: Option<Vec<crate::damage::CDamage>> = case.extra.as_ref().and_then(|extra| extra.get("damages")).and_then(|value| serde_json::from_value(value.clone()).ok());
        let mut damages: Vec<crate::damage::CDamage> = Vec::new();
        match replay_damages {
            Some(list) => damages = list,
            None => {
                if case.extra.is_none() && splitmix(&mut word_state) % 3 == 0 {
                    let live = crate::damage::live_frames(&exec.driver.tracer.frames, &image);
                    for _ in 0..(1 + splitmix(&mut word_state) % 2) {
                        if live.is_empty() {
                            break;
                        }
                        let frame = &live[(splitmix(&mut word_state) % live.len() as u64) as usize];
                        damages.push(crate::damage::aimed_damage_in_context(frame, &live, &image, splitmix(&mut word_state)).0);
                    }
                }
            }
        }
        for damage in &damages {
            crate::damage::apply(&mut image, &mut crate::damage::Extras::default(), damage);
        }
        let damaged = !damages.is_empty();
        let faulted_dir = env.scratch.fresh("c11-faulted");
        // dry run
        image.materialize(&faulted_dir).map_err(|err| CaseError::Engine(format!("materialize: {err}")))?;
        verif_hooks::set_fault_plan(None, true);
        let dry = open_log(&faulted_dir, case.policy);
        let stats = verif_hooks::fault_stats();
        verif_hooks::set_fault_plan(None, false);
        match dry {
            Ok(Ok(log)) => drop(log),
            other => {
                if damaged {
                    // a damaged image that cannot be opened at all (Corruption, or a panic that is C10's concern)
                    return Err(CaseError::Skip("damaged-image-does-not-open".to_string()));
                }
                return Err(CaseError::Engine(format!("dry-run open of a clean image failed: {:?}", other.map(|res| res.map(|_| ())))));
            }
        }
        let sites = stats.sites;
        let history_hash = hash64(&(&exec.cops, &damages));
        let replay = case.extra.as_ref().and_then(|extra| extra.get("fault")).cloned();
        let mut seen_first_block = false;
        let mut in_later_file = vec![false; sites.len()];
        for (idx, site) in sites.iter().enumerate() {
            match site {
                Site::ReadFirstBlock => seen_first_block = true,
                Site::OpenFile if seen_first_block => {
                    for flag in in_later_file.iter_mut().skip(idx) {
                        *flag = true;
                    }
                }
                _ => {}
            }
        }
        let plans: Vec<(u64, bool, &'static str)> = match &replay {
            Some(fault) => {
                let kind_name = fault.get("kind").and_then(|kind| kind.as_str()).unwrap_or("Other");
                let kind_static = KINDS.iter().find(|(text, _)| *text == kind_name).map(|(text, _)| *text).unwrap_or("Other");
                vec![(
                    fault.get("nth").and_then(|nth| nth.as_u64()).unwrap_or(0),
                    fault.get("persistent").and_then(|flag| flag.as_bool()).unwrap_or(false),
                    kind_static,
                )]
            }
            None => {
                let mut plans = Vec::new();
                for (idx, site) in sites.iter().enumerate() {
                    for persistent in [false, true] {
                        let kind = loop {
                            let candidate = KINDS[(splitmix(&mut word_state) % KINDS.len() as u64) as usize];
                            if candidate.1 == ErrorKind::UnexpectedEof && is_read_site(*site) {
                                continue;
                            }
                            break candidate.0;
                        };
                        plans.push((idx as u64, persistent, kind));
                    }
                }
                plans
            }
        };
        for (nth, persistent, kind) in plans {
            env.evals(1);
            image.materialize(&faulted_dir).map_err(|err| CaseError::Engine(format!("materialize: {err}")))?;
            verif_hooks::set_fault_plan(Some(FaultPlan { nth, persistent, kind: kind_by_name(kind) }), false);
            let result = open_log(&faulted_dir, case.policy);
            let fault_stats = verif_hooks::fault_stats();
            verif_hooks::set_fault_plan(None, false);
            let site = sites.get(nth as usize).copied();
            let extra = json!({"fault": {"nth": nth, "persistent": persistent, "kind": kind}, "damages": damages});
            let what = format!("{} {kind} fault at recovery I/O call #{nth} ({site:?}; image {}{})", if persistent { "persistent" } else { "transient" }, image.describe(),
                if damaged { format!("; damaged in place: {:?}", damages.iter().map(super::c12::describe_damage).collect::<Vec<_>>()) } else { String::new() });
            if fault_stats.fired == 0 {
                // the plan was never reached (cannot happen: nth < N of a deterministic open)
                return Err(CaseError::Engine(format!("{what}: fault was not reached")));
            }
            match result {
                Err(panic) => {
                    let signature = if panic.contains("livelock") { "io-error-livelock" } else { "open-panicked-on-io-error" };
                    return Err(exec.failure(format!("{what}: open does not terminate / panicked: {panic}"), signature, extra));
                }
                Ok(Ok(log)) => {
                    drop(log);
                    return Err(exec.failure(format!("{what}: open returned Ok although an I/O call of recovery failed"), "io-error-swallowed", extra));
                }
                Ok(Err(err)) => {
                    if !err.starts_with("IoError") {
                        return Err(exec.failure(format!("{what}: open returned {err}, not an I/O error"), "io-error-misreported", extra));
                    }
                }
            }
            env.class(&format!("site:{:?}", site.unwrap_or(Site::ReadDir)));
            if damaged {
                env.class("fault-on-damaged-image");
            }
            if in_later_file.get(nth as usize).copied().unwrap_or(false) {
                env.class("fault-in-non-first-file");
                env.nontrivial(mix(history_hash, hash64(&(nth, persistent, kind))));
                env.sample(|| json!({"ops": ops_sample(&exec.cops), "fault": what}));
            }
        }
        env.scratch.remove(&dir);
        env.scratch.remove(&faulted_dir);
        Ok(())
    }
}
