//! C05 — every call conforms to the sequential queue-map specification.

use std::collections::BTreeSet;
use std::ops::{Bound, RangeBounds};

use mrecordlog::MultiRecordLog;
use proptest::strategy::BoxedStrategy;
use serde_json::json;

use crate::case::{ops_sample, Case, CaseError, Env, Tier};
use crate::exec::Exec;
use crate::model::{Model, Outcome};
use crate::ops::{COp, GenCfg, Policy};
use crate::runner::Property;
use crate::util::{guarded, hash64, splitmix};

pub struct C05;

pub fn gen_cfg(tier: Tier) -> GenCfg {
    let mut cfg = GenCfg::default();
    cfg.max_ops = if tier == Tier::Quick { 50 } else { 120 };
    cfg.w_restart = 2;
    cfg.w_persist = 1;
    cfg.w_create = 8;
    cfg.w_delete = 4;
    cfg.w_append = 46;
    cfg.w_truncate = 30;
    cfg.w_missing_names = 6;
    cfg.w_special_names = 2;
    // favour small/medium payloads so that the ring buffer wraps often (append/truncate churn)
    cfg.w_len.fileish = 4;
    cfg.w_len.blockish = 8;
    cfg.w_len.medium = 24;
    cfg.w_len.small = 20;
    cfg.w_len.huge = 0;
    cfg.w_pos_retry = 7;
    cfg.w_pos_past = 7;
    cfg.w_tr_mid = 50;
    cfg.w_tr_last = 20;
    cfg
}

#[derive(Default)]
pub struct ProbeStats {
    pub probes: u64,
    pub owned: u64,
    pub ranges_nonempty: u64,
}

fn bound_from(kind: u64, pos: u64) -> Bound<u64> {
    match kind % 3 {
        0 => Bound::Unbounded,
        1 => Bound::Included(pos),
        _ => Bound::Excluded(pos),
    }
}

/// Compares every read accessor with the model. `word` drives the generated range bounds.
pub fn probe(log: &MultiRecordLog, model: &Model, word: u64, stats: &mut ProbeStats) -> Result<(), String> {
    let res = guarded(|| -> Result<(), String> {
        let mut rng = word ^ 0xABCD_EF01_2345_6789;
        // queue set
        let listed: BTreeSet<String> = log.list_queues().map(|name| name.to_string()).collect();
        let listed_count = log.list_queues().count();
        let expected: BTreeSet<String> = model.queues.keys().cloned().collect();
        if listed != expected || listed_count != expected.len() {
            return Err(format!(
                "list_queues = {:?} ({} entries) but model has {:?}",
                listed, listed_count, expected
            ));
        }
        for name in ["q1", "q2", "alpha", "q", "q11", "nope", "", "Q1", "q1 "] {
            if log.queue_exists(name) != model.queues.contains_key(name) {
                return Err(format!(
                    "queue_exists({name:?}) = {} but model says {}",
                    log.queue_exists(name),
                    model.queues.contains_key(name)
                ));
            }
        }
        // accessors on a missing queue
        for name in ["nope", ""] {
            if !model.queues.contains_key(name) {
                if log.range(name, (Bound::<u64>::Unbounded, Bound::<u64>::Unbounded)).is_ok() {
                    return Err(format!("range on missing queue {name:?} returned Ok"));
                }
                if log.last_position(name).is_ok() {
                    return Err(format!("last_position on missing queue {name:?} returned Ok"));
                }
                if log.last_record(name).is_ok() {
                    return Err(format!("last_record on missing queue {name:?} returned Ok"));
                }
            }
        }
        let summary = log.summary();
        let summary_names: BTreeSet<String> = summary.queues.keys().cloned().collect();
        if summary_names != expected {
            return Err(format!(
                "summary lists {:?} but model has {:?}",
                summary_names, expected
            ));
        }
        for (name, queue) in &model.queues {
            if !log.queue_exists(name) {
                return Err(format!("queue_exists({name:?}) is false for a live queue"));
            }
            let expected_last = queue.next.checked_sub(1);
            let last_position = log
                .last_position(name)
                .map_err(|_| format!("last_position({name:?}) says missing"))?;
            if last_position != expected_last {
                return Err(format!(
                    "last_position({name:?}) = {last_position:?}, model {expected_last:?}"
                ));
            }
            let summary_end = summary.queues[name].end;
            if summary_end != expected_last {
                return Err(format!(
                    "summary().queues[{name:?}].end = {summary_end:?}, model {expected_last:?}"
                ));
            }
            let last_record = log
                .last_record(name)
                .map_err(|_| format!("last_record({name:?}) says missing"))?;
            match (last_record, queue.recs.last()) {
                (None, None) => {}
                (Some(record), Some((pos, bytes))) => {
                    if record.position != *pos || record.payload[..] != bytes[..] {
                        return Err(format!(
                            "last_record({name:?}) = (pos {}, {} bytes), model (pos {pos}, {} bytes)",
                            record.position,
                            record.payload.len(),
                            bytes.len()
                        ));
                    }
                    if matches!(record.payload, std::borrow::Cow::Owned(_)) {
                        stats.owned += 1;
                    }
                }
                (got, want) => {
                    return Err(format!(
                        "last_record({name:?}) is {:?} but model has {:?}",
                        got.map(|record| record.position),
                        want.map(|(pos, _)| *pos)
                    ));
                }
            }
            // full range + two generated ranges
            let first = queue.first_position();
            let next = queue.next;
            let mut candidates: Vec<u64> = vec![
                first.saturating_sub(1),
                first,
                first + 1,
                next.saturating_sub(1),
                next,
                next + 1,
                next + 1000,
                0,
            ];
            if let Some((pos, _)) = queue.recs.get(queue.recs.len() / 2) {
                candidates.push(*pos);
            }
            for (pos, _) in queue.recs.iter().take(3) {
                candidates.push(*pos);
            }
            let mut bounds_list: Vec<(Bound<u64>, Bound<u64>)> =
                vec![(Bound::Unbounded, Bound::Unbounded)];
            for _ in 0..2 {
                let draw = splitmix(&mut rng);
                let start_pos = candidates[(draw % candidates.len() as u64) as usize];
                let end_pos = candidates[((draw >> 16) % candidates.len() as u64) as usize];
                bounds_list.push((
                    bound_from(draw >> 32, start_pos),
                    bound_from(draw >> 40, end_pos),
                ));
            }
            for bounds in bounds_list {
                stats.probes += 1;
                let mut expected_iter = queue
                    .recs
                    .iter()
                    .filter(|(pos, _)| RangeBounds::contains(&bounds, pos));
                let got_iter = log
                    .range(name, bounds)
                    .map_err(|_| format!("range({name:?}) says missing"))?;
                let mut count = 0usize;
                for record in got_iter {
                    let Some((pos, bytes)) = expected_iter.next() else {
                        return Err(format!(
                            "range({name:?}, {bounds:?}) returned an extra record at position {}",
                            record.position
                        ));
                    };
                    if record.position != *pos {
                        return Err(format!(
                            "range({name:?}, {bounds:?}) record #{count}: position {} expected {pos}",
                            record.position
                        ));
                    }
                    if record.payload[..] != bytes[..] {
                        return Err(format!(
                            "range({name:?}, {bounds:?}) position {pos}: payload differs ({} bytes vs {} expected)",
                            record.payload.len(),
                            bytes.len()
                        ));
                    }
                    if matches!(record.payload, std::borrow::Cow::Owned(_)) {
                        stats.owned += 1;
                    }
                    count += 1;
                }
                if let Some((pos, _)) = expected_iter.next() {
                    return Err(format!(
                        "range({name:?}, {bounds:?}) stopped after {count} records; model also has position {pos}"
                    ));
                }
                if count > 0 {
                    stats.ranges_nonempty += 1;
                }
            }
        }
        Ok(())
    });
    match res {
        Ok(result) => result,
        Err(panic) => Err(format!("read accessor panicked: {panic}")),
    }
}

/// Classifies an op outcome into the call/outcome classes of DESIGN.md C05.
pub fn call_class(cop: &COp, outcome: &Outcome, model_before_next: Option<u64>) -> &'static str {
    match (cop, outcome) {
        (COp::Append { pos: None, .. }, Outcome::Appended { last: Some(_) }) => "append-auto",
        (COp::Append { pos: Some(pos), .. }, Outcome::Appended { last: Some(_) }) => {
            if Some(*pos) == model_before_next {
                "append-explicit-next"
            } else {
                "append-explicit-ahead"
            }
        }
        (COp::Append { batch, .. }, Outcome::Appended { last: None }) => {
            if batch.is_empty() {
                "empty-batch"
            } else {
                "retry-noop"
            }
        }
        (_, Outcome::AppendPast) => "past",
        (_, Outcome::AppendMissing) | (_, Outcome::TruncateMissing) | (_, Outcome::DeleteMissing) => {
            "missing"
        }
        (_, Outcome::Created) => "create-ok",
        (_, Outcome::CreateExists) => "exists",
        (_, Outcome::Deleted) => "delete-ok",
        (_, Outcome::Truncated { .. }) => "truncate",
        (_, Outcome::Persisted) => "persist",
        (_, Outcome::Restarted) => "restart",
        _ => "other",
    }
}

impl Property for C05 {
    fn id(&self) -> &'static str {
        "C05"
    }

    fn rule(&self) -> String {
        "stateful model-based: generated histories (create/delete/append/truncate/persist/restart on \
         existing, missing and unusual names; every position and truncation selector; payloads 0..150 KiB) \
         run in lock-step on the real log and a naive reference model (re-seeded with the observed state at every restart: \
         what a restart preserves is C01's concern); after EVERY call the outcome and \
         all read accessors (list_queues, queue_exists, range with generated (Bound,Bound) pairs, \
         last_position, last_record, summary) are compared byte for byte. evaluations = API calls checked. \
         non-trivial = history exercising >= 4 distinct call/outcome classes; distinct = hash of the \
         concrete op list."
            .to_string()
    }

    fn assumptions(&self) -> Vec<String> {
        vec![
            "reference model encodes the documented semantics (DESIGN.md section 2 and 6)".to_string(),
            "positions < 2^62, queue names <= 65535 bytes".to_string(),
            "WAL files of 4 blocks (hook geometry)".to_string(),
        ]
    }

    fn cases(&self, tier: Tier) -> u32 {
        match tier {
            Tier::Quick => 40_000,
            Tier::Thorough => 1_000_000,
        }
    }

    fn strategy(&self, tier: Tier) -> BoxedStrategy<Case> {
        super::case_strategy(&gen_cfg(tier), vec![Policy::DEFAULT, Policy::DoNothing], 4)
    }

    fn extra_coverage(&self, stats: &crate::case::Stats) -> serde_json::Value {
        json!({
            "probes_with_wrapped_payload": stats.classes.get("probe-owned-payload").copied().unwrap_or(0),
            "range_probes": stats.classes.get("probe-range").copied().unwrap_or(0),
        })
    }

    fn run(&self, case: &Case, env: &mut Env) -> Result<(), CaseError> {
        let dir = env.scratch.fresh("c05");
        let mut exec = Exec::new(&dir, case.policy)?;
        let mut classes: BTreeSet<&'static str> = BTreeSet::new();
        let mut probe_stats = ProbeStats::default();
        let mut word_state = case.words.iter().fold(0u64, |acc, word| (acc << 8) ^ *word as u64);
        for sop in &case.ops {
            let cop = exec.resolve(sop);
            let before_next = cop
                .queue()
                .and_then(|q| exec.model.queues.get(&q.text()).map(|queue| queue.next));
            let before_first = cop
                .queue()
                .and_then(|q| exec.model.queues.get(&q.text()).map(|queue| (queue.first_position(), queue.recs.len())));
            let step = exec.step_concrete(cop)?;
            if matches!(step.cop, COp::Restart { .. }) {
                // What a restart preserves is C01's concern: the model is re-seeded with whatever the re-opened log
                // shows, so that C05 keeps judging the calls made AFTER the restart (on replay-built structures) only.
                exec.usable_or_skip(&step)?;
                match exec.driver.observe() {
                    Ok(observed) => exec.model = Model::from_state(&observed),
                    Err(_) => return Err(CaseError::Skip("live-state-unobservable".to_string())),
                }
            } else {
                exec.check_outcome(&step)?;
            }
            let mut class = call_class(&step.cop, &step.expected, before_next);
            if let (COp::Truncate { pos, .. }, Outcome::Truncated { evicted }) = (&step.cop, &step.expected) {
                let (first, count) = before_first.unwrap_or((0, 0));
                class = if *pos + 1 > before_next.unwrap_or(0) {
                    "truncate-future"
                } else if *evicted == 0 && *pos < first {
                    "truncate-below"
                } else if *evicted == count && count > 0 {
                    "truncate-all"
                } else if *evicted > 0 {
                    "truncate-partial"
                } else {
                    "truncate-nothing"
                };
            }
            classes.insert(class);
            env.class(class);
            env.evals(1);
            let word = splitmix(&mut word_state);
            let log = exec.driver.log.as_ref().unwrap();
            if let Err(msg) = probe(log, &exec.model, word, &mut probe_stats) {
                std::fs::remove_dir_all(&dir).ok();
                return Err(exec.failure(
                    format!("after op #{} {}: {msg}", step.idx, step.cop.short()),
                    "accessor-mismatch",
                    json!({}),
                ));
            }
        }
        env.class_n("probe-range", probe_stats.probes);
        env.class_n("probe-owned-payload", probe_stats.owned);
        env.class_n("probe-range-nonempty", probe_stats.ranges_nonempty);
        if classes.len() >= 4 {
            env.nontrivial(hash64(&exec.cops));
            env.sample(|| json!({"policy": format!("{:?}", case.policy), "ops": ops_sample(&exec.cops), "classes": classes.iter().collect::<Vec<_>>()}));
        }
        exec.driver.close()?;
        env.scratch.remove(&dir);
        Ok(())
    }
}
