//! C10 — open never panics or hangs on any directory content.

use std::ops::Bound;

use mrecordlog::verif_hooks;
use proptest::strategy::BoxedStrategy;
use serde_json::json;

use crate::case::{ops_sample, Case, CaseError, Env, Failure, Tier};
use crate::damage::{
    apply, craft_batch, craft_entry, craft_entry_frames, craft_frame, live_frames, next_wal_name,
    random_inplace_damage, to_hex, written_extent, CDamage, Extras,
};
use crate::driver::open_log;
use crate::exec::Exec;
use crate::iotrace::Image;
use crate::ops::{GenCfg, Policy, SOp};
use crate::runner::Property;
use crate::util::{guarded, hash64, mix, splitmix, wal_name, wal_number, BLOCK};

pub struct C10;

fn gen_cfg(tier: Tier) -> GenCfg {
    let mut cfg = super::c01::gen_cfg(tier);
    cfg.max_ops = if tier == Tier::Quick { 20 } else { 36 };
    cfg.restart_policies = vec![];
    cfg.w_restart = 3;
    cfg.w_len.huge = 0;
    cfg.w_len.fileish = 8;
    cfg.w_truncate = 16;
    cfg
}

const EXTREME_POSITIONS: [u64; 8] = [0, 1, 2, 1 << 32, 1 << 62, u64::MAX - 1, u64::MAX, (1 << 63) - 1];

/// A generated sequence of CRC-valid frames carrying arbitrary entry bytes, laid out from in-block
/// offset `cursor`.
pub fn crafted_bytes(rng: &mut u64, names: &[String], cursor: usize) -> Vec<u8> {
    let mut out: Vec<u8> = Vec::new();
    let entries = 1 + splitmix(rng) % 6;
    for _ in 0..entries {
        let tag: u8 = match splitmix(rng) % 16 {
            0 => 0,
            1 => 5,
            2 => 255,
            3..=5 => 1,
            6..=8 => 2,
            9..=10 => 3,
            _ => 4,
        };
        let position = match splitmix(rng) % 4 {
            0 => EXTREME_POSITIONS[(splitmix(rng) % EXTREME_POSITIONS.len() as u64) as usize],
            1 => splitmix(rng),
            _ => splitmix(rng) % 64,
        };
        let name: Vec<u8> = match splitmix(rng) % 8 {
            0 => Vec::new(),
            1 => vec![0xFF, 0xFE, 0x80],
            2 => crate::util::fill(splitmix(rng), (splitmix(rng) % 300) as usize, 0),
            3 => b"crafted".to_vec(),
            _ => {
                if names.is_empty() {
                    b"q1".to_vec()
                } else {
                    names[(splitmix(rng) % names.len() as u64) as usize].as_bytes().to_vec()
                }
            }
        };
        let body: Vec<u8> = if tag == 4 || splitmix(rng) % 8 == 0 {
            match splitmix(rng) % 8 {
                0 => Vec::new(),
                1 => {
                    // valid batch at consecutive positions
                    let count = 1 + splitmix(rng) % 4;
                    let records: Vec<(u64, Vec<u8>)> = (0..count)
                        .map(|idx| (position.wrapping_add(idx), crate::util::fill(splitmix(rng), (splitmix(rng) % 200) as usize, 0)))
                        .collect();
                    craft_batch(&records)
                }
                2 => {
                    // non-monotonic / duplicate positions
                    craft_batch(&[(position, b"a".to_vec()), (position, b"b".to_vec()), (position.wrapping_sub(1), b"c".to_vec())])
                }
                3 => {
                    // extreme positions inside the batch
                    craft_batch(&[(u64::MAX, b"max".to_vec())])
                }
                4 => {
                    // declared length larger than what follows
                    let mut bytes = Vec::new();
                    bytes.extend_from_slice(&position.to_le_bytes());
                    bytes.extend_from_slice(&u32::MAX.to_le_bytes());
                    bytes.extend_from_slice(b"short");
                    bytes
                }
                5 => {
                    // truncated record header
                    let full = craft_batch(&[(position, b"payload".to_vec())]);
                    full[..(splitmix(rng) % full.len() as u64) as usize].to_vec()
                }
                6 => {
                    // (u64::MAX - 1, u64::MAX) consecutive
                    craft_batch(&[(u64::MAX - 1, b"x".to_vec()), (u64::MAX, b"y".to_vec())])
                }
                _ => crate::util::fill(splitmix(rng), (splitmix(rng) % 100) as usize, 0),
            }
        } else {
            Vec::new()
        };
        let mut entry = craft_entry(tag, position, &name, &body);
        if splitmix(rng) % 16 == 0 {
            // entry shorter than its fixed header
            entry.truncate((splitmix(rng) % 11) as usize);
        }
        let at = cursor + out.len();
        match splitmix(rng) % 10 {
            0 => {
                // odd frame-type sequence
                let frame_type = [2u8, 3, 4, 3][(splitmix(rng) % 4) as usize];
                let room = BLOCK - at % BLOCK;
                if room > 7 + entry.len() {
                    out.extend_from_slice(&craft_frame(frame_type, &entry));
                } else {
                    out.extend_from_slice(&craft_entry_frames(&entry, at));
                }
            }
            _ => out.extend_from_slice(&craft_entry_frames(&entry, at)),
        }
    }
    out
}

/// One generated damage op of any kind of DESIGN.md section 8.
fn any_damage(rng: &mut u64, image: &Image, frames: &[crate::iotrace::FrameInfo], names: &[String]) -> Option<CDamage> {
    let files: Vec<String> = image.files.keys().cloned().collect();
    let pick_file = |rng: &mut u64| -> Option<String> {
        if files.is_empty() {
            None
        } else {
            Some(files[(splitmix(rng) % files.len() as u64) as usize].clone())
        }
    };
    let file_bytes = crate::util::file_bytes() as u64;
    match splitmix(rng) % 20 {
        0..=2 => {
            let extents = written_extent(frames, image);
            random_inplace_damage(image, &extents, splitmix(rng))
        }
        3..=5 => {
            let live = live_frames(frames, image);
            if live.is_empty() {
                return None;
            }
            let frame = &live[(splitmix(rng) % live.len() as u64) as usize];
            Some(crate::damage::aimed_damage_in_context(frame, &live, image, splitmix(rng)).0)
        }
        6..=7 => {
            let name = pick_file(rng)?;
            let lengths = [0, 1, 100, BLOCK as u64 - 1, BLOCK as u64, BLOCK as u64 + 1, 2 * BLOCK as u64 + 17, file_bytes - 1, file_bytes + 1, file_bytes + BLOCK as u64, splitmix(rng) % (file_bytes + 1)];
            Some(CDamage::SetLen { name, len: lengths[(splitmix(rng) % lengths.len() as u64) as usize] })
        }
        8 => Some(CDamage::Remove { name: pick_file(rng)? }),
        9 => {
            let from = pick_file(rng)?;
            let numbers: Vec<u64> = files.iter().filter_map(|name| wal_number(name)).collect();
            let max = numbers.iter().copied().max().unwrap_or(0);
            let min = numbers.iter().copied().min().unwrap_or(0);
            let to = match splitmix(rng) % 9 {
                0 | 1 => max.saturating_add(1),
                2 | 3 => max.saturating_add(3),
                4 | 5 => min.saturating_sub(1),
                // the largest numbers the name format can carry (the parser accepts them by design)
                6 => u64::MAX - (splitmix(rng) % 2),
                _ => min.saturating_add(splitmix(rng) % (max - min).saturating_add(2)),
            };
            Some(CDamage::Copy { from, to: wal_name(to) })
        }
        10 => Some(CDamage::SwapFiles { a: pick_file(rng)?, b: pick_file(rng)? }),
        11 => {
            let blocks = (file_bytes / BLOCK as u64) as u32;
            Some(CDamage::SwapBlocks {
                name_a: pick_file(rng)?,
                block_a: (splitmix(rng) % blocks as u64) as u32,
                name_b: pick_file(rng)?,
                block_b: (splitmix(rng) % blocks as u64) as u32,
            })
        }
        12 => {
            let stray_names = ["wal-0000000000000000001", "wal-000000000000000000001", "WAL-00000000000000000001", "notes.txt", ".lock", "wal-0000000000000000000a", "wal-",
                // 20 ASCII digits, but not a u64
                "wal-18446744073709551616", "wal-99999999999999999999", "wal-20000000000000000000"];
            let name = if splitmix(rng) % 3 == 0 {
                crate::damage::multibyte_wal_like_name((splitmix(rng) % 23) as usize, splitmix(rng) % 3)
            } else {
                stray_names[(splitmix(rng) % stray_names.len() as u64) as usize].to_string()
            };
            Some(CDamage::Stray { name, len: (splitmix(rng) % 70_000) as u32, seed: splitmix(rng) })
        }
        13 => {
            let name = match splitmix(rng) % 3 {
                0 => next_wal_name(image),
                1 => wal_name(900_000),
                _ => "subdir".to_string(),
            };
            Some(CDamage::Dir { name })
        }
        14 => {
            let name = match splitmix(rng) % 3 {
                0 => next_wal_name(image),
                1 => wal_name(900_001),
                _ => "link".to_string(),
            };
            let target = match splitmix(rng) % 3 {
                0 => files.first().cloned().unwrap_or_else(|| "missing".to_string()),
                1 => "missing".to_string(),
                _ => ".".to_string(),
            };
            Some(CDamage::Symlink { name, target })
        }
        _ => {
            // crafted CRC-valid frames: at the end of the written extent of the newest file (most effective: they are
            // replayed right after the legitimate entries), at the start of a generated block, or as a whole new file
            let crafted_at = splitmix(rng) % 6;
            if crafted_at == 0 || files.is_empty() {
                let name = next_wal_name(image);
                let bytes = crafted_bytes(rng, names, 0);
                // a new file: created full-size, then written
                return Some(CDamage::Copy { from: String::new(), to: format!("{name}|{}", to_hex(&bytes)) });
            }
            if crafted_at == 1 {
                let name = pick_file(rng)?;
                let block = splitmix(rng) % (file_bytes / BLOCK as u64);
                let bytes = crafted_bytes(rng, names, 0);
                return Some(CDamage::Write { name, off: block * BLOCK as u64, hex: to_hex(&bytes) });
            }
            let extents = written_extent(frames, image);
            let (name, end) = extents.iter().rev().find(|(_, end)| *end > 0).cloned().or_else(|| extents.last().cloned())?;
            let bytes = crafted_bytes(rng, names, end as usize % BLOCK);
            Some(CDamage::Write { name, off: end, hex: to_hex(&bytes) })
        }
    }
}

/// `CDamage::Copy` with an empty `from` encodes "new full-size file `name` starting with these bytes" as "name|hex".
fn apply_any(image: &mut Image, extras: &mut Extras, damage: &CDamage) -> bool {
    if let CDamage::Copy { from, to } = damage {
        if from.is_empty() {
            if let Some((name, hex)) = to.split_once('|') {
                let mut content = vec![0u8; crate::util::file_bytes()];
                let bytes = crate::damage::from_hex(hex);
                let take = bytes.len().min(content.len());
                content[..take].copy_from_slice(&bytes[..take]);
                image.files.insert(name.to_string(), content);
                return true;
            }
            return false;
        }
    }
    apply(image, extras, damage)
}

/// Calls every read accessor of an opened log.
fn exercise_accessors(log: &mrecordlog::MultiRecordLog, rng: &mut u64) -> Result<usize, String> {
    guarded(|| {
        let mut records = 0usize;
        let names: Vec<String> = log.list_queues().map(|name| name.to_string()).collect();
        for name in &names {
            let _ = log.queue_exists(name);
            let last_position = log.last_position(name);
            let _ = log.last_record(name).map(|record| record.map(|record| record.payload.len()));
            if let Ok(iter) = log.range(name, (Bound::<u64>::Unbounded, Bound::<u64>::Unbounded)) {
                for record in iter {
                    records += 1;
                    let _ = record.payload.len() + record.position as usize % 2;
                }
            }
            let pivot = last_position.ok().flatten().unwrap_or(0);
            let candidates = [0u64, pivot, pivot.saturating_sub(1), pivot.saturating_add(1), u64::MAX, splitmix(rng)];
            for _ in 0..3 {
                let start = candidates[(splitmix(rng) % candidates.len() as u64) as usize];
                let end = candidates[(splitmix(rng) % candidates.len() as u64) as usize];
                let bounds = match splitmix(rng) % 4 {
                    0 => (Bound::Included(start), Bound::Included(end)),
                    1 => (Bound::Excluded(start), Bound::Excluded(end)),
                    2 => (Bound::Included(start), Bound::Unbounded),
                    _ => (Bound::Unbounded, Bound::Excluded(end)),
                };
                if let Ok(iter) = log.range(name, bounds) {
                    for record in iter {
                        let _ = record.payload.len();
                    }
                }
            }
        }
        let summary = log.summary();
        let _ = summary.queues.len();
        let _ = log.resource_usage();
        records
    })
}

impl Property for C10 {
    fn id(&self) -> &'static str {
        "C10"
    }

    fn level(&self) -> &'static str {
        "fault_enumeration"
    }

    fn rule(&self) -> String {
        "generated short histories are run to a valid WAL image (1 in 8 cases start from an empty directory instead); per \
         history 10 damaged directories are derived, each by 1..8 generated damage operations of ALL kinds: in-place (bit \
         flip, random / zero run, garbage block, aimed at a frame's crc / len / type / payload), structural (truncate or \
         extend a file to 0, <1 block, non-multiples of a block, +-1; remove a file; duplicate a file under a number before / \
         inside / after the run; swap two files or two blocks; stray files with near-miss names; sub-directories and symlinks, \
         also with WAL-shaped names in and out of the writer's reach) and CRAFTED content: generated sequences of frames with \
         correct CRCs carrying arbitrary entry bytes (bad tags, short entries, empty / non-UTF-8 / long names, non-monotonic \
         or duplicate batch positions, extreme integers incl. u64::MAX, over-long declared lengths, orphan Middle/Last frames) \
         placed right after the written extent, at a block start, or as a whole new file. Oracle: open under catch_unwind \
         returns Ok or Err; on Ok every read accessor (full and generated-bound range iteration, last_record, last_position, \
         summary, resource_usage) runs without panic; the hook's block-load counter stays <= 8 * (blocks + files) + 64; the worker's \
         address space is capped (12 GiB) and a 60 s per-case watchdog (confirmed by an isolated re-run) turns a hang into a \
         violation. evaluations = damaged directories opened. non-trivial = the directory differs from a valid image and \
         recovery parsed >= 1 entry (open Ok with >= 1 queue, or an error after damage inside the written extent); distinct = \
         hash(history, damage list)."
            .to_string()
    }

    fn assumptions(&self) -> Vec<String> {
        vec![
            "duplicated files get numbers within [min-1, max+3] of the existing run, or u64::MAX / u64::MAX-1 (the largest the name format carries)".to_string(),
            "hang detection is deterministic only through the block-load counter; a pure CPU loop is caught by the 60 s watchdog".to_string(),
        ]
    }

    fn cases(&self, tier: Tier) -> u32 {
        match tier {
            Tier::Quick => 25_000,
            Tier::Thorough => 800_000,
        }
    }

    fn max_shrink_iters(&self) -> u32 {
        500
    }

    fn hang_is_violation(&self) -> bool {
        true
    }

    fn strategy(&self, tier: Tier) -> BoxedStrategy<Case> {
        super::case_strategy(&gen_cfg(tier), vec![Policy::DEFAULT], 6)
    }

    fn run(&self, case: &Case, env: &mut Env) -> Result<(), CaseError> {
        let dir = env.scratch.fresh("c10");
        let mut word_state = case.words.iter().fold(0xC10_u64, |acc, word| acc.rotate_left(3) ^ *word as u64);
        let replay_damages: Option<Vec<CDamage>> = case.extra.as_ref().and_then(|extra| extra.get("damages")).and_then(|value| serde_json::from_value(value.clone()).ok());
        let from_scratch = match case.extra.as_ref().and_then(|extra| extra.get("from_scratch")).and_then(|value| value.as_bool()) {
            Some(flag) => flag,
            None => replay_damages.is_none() && splitmix(&mut word_state) % 8 == 0,
        };
        let mut exec = Exec::new(&dir, case.policy)?;
        if !from_scratch {
            let mut ops = case.ops.clone();
            ops.push(SOp::Restart { policy: None });
            for sop in &ops {
                let step = exec.step(sop)?;
                exec.usable_or_skip(&step)?;
            }
        }
        exec.driver.close()?;
        let base_image = if from_scratch {
            Image::default()
        } else {
            Image::from_dir(&dir).map_err(|err| CaseError::Engine(format!("read dir: {err}")))?
        };
        let frames = if from_scratch { Vec::new() } else { exec.driver.tracer.frames.clone() };
        let names: Vec<String> = exec.model.queues.keys().cloned().collect();
        let history_hash = hash64(&(from_scratch, &exec.cops));
        let damaged_dir = env.scratch.fresh("c10-damaged");
        let rounds = if replay_damages.is_some() { 1 } else { 10 };
        for _round in 0..rounds {
            let mut image = base_image.clone();
            let mut extras = Extras::default();
            let mut damages: Vec<CDamage> = Vec::new();
            match &replay_damages {
                Some(list) => {
                    for damage in list {
                        apply_any(&mut image, &mut extras, damage);
                        damages.push(damage.clone());
                    }
                }
                None => {
                    let count = 1 + splitmix(&mut word_state) % 8;
                    for _ in 0..count {
                        if let Some(damage) = any_damage(&mut word_state, &image, &frames, &names) {
                            if apply_any(&mut image, &mut extras, &damage) {
                                damages.push(damage);
                            }
                        }
                    }
                }
            }
            if damages.is_empty() {
                continue;
            }
            env.evals(1);
            let cops = exec.cops.clone();
            let extra = json!({"damages": damages, "from_scratch": from_scratch});
            let failure = |msg: String, signature: &str| -> CaseError {
                CaseError::Violation(Box::new(Failure {
                    msg,
                    signature: signature.to_string(),
                    policy: case.policy,
                    ops: cops.clone(),
                    extra: extra.clone(),
                }))
            };
            env.track(|| Failure { msg: "worker died or hung while opening this directory".to_string(), signature: "hang-or-abort".to_string(), policy: case.policy, ops: cops.clone(), extra: extra.clone() }.to_replay("C10"));
            image.materialize(&damaged_dir).map_err(|err| CaseError::Engine(format!("materialize: {err}")))?;
            extras.materialize(&damaged_dir).map_err(|err| CaseError::Engine(format!("materialize extras: {err}")))?;
            let total_blocks: u64 = image.files.values().map(|content| (content.len() / BLOCK) as u64 + 1).sum();
            // generous on purpose (a recovery that made several passes over the files would still be fine): the point is
            // work that is out of proportion with the directory, i.e. an error path that re-reads without progress
            let step_bound = 8 * (total_blocks + image.files.len() as u64) + 64;
            verif_hooks::reset_steps();
            let result = open_log(&damaged_dir, case.policy);
            let steps = verif_hooks::steps();
            let described: Vec<String> = damages.iter().map(describe_any).collect();
            let mut parsed_entry = false;
            match result {
                Err(panic) => {
                    let location = crate::util::last_panic_location().unwrap_or_default();
                    let signature = if panic.contains("overflow") || panic.contains("out of bounds") || panic.contains("out of range") {
                        format!("open-panicked:{}", location.rsplit('/').next().unwrap_or("").split(':').next().unwrap_or(""))
                    } else {
                        "open-panicked".to_string()
                    };
                    return Err(failure(format!("damages {described:?}: open panicked: {panic} at {location}"), &signature));
                }
                Ok(Err(_)) => {
                    env.class("open-returned-error");
                }
                Ok(Ok(log)) => {
                    env.class("open-returned-ok");
                    match exercise_accessors(&log, &mut word_state) {
                        Ok(_records) => {
                            parsed_entry = log.list_queues().next().is_some();
                        }
                        Err(panic) => {
                            let location = crate::util::last_panic_location().unwrap_or_default();
                            return Err(failure(format!("damages {described:?}: a read accessor of the returned log panicked: {panic} at {location}"), "accessor-panicked"));
                        }
                    }
                    let dropped = guarded(move || drop(log));
                    if let Err(panic) = dropped {
                        return Err(failure(format!("damages {described:?}: dropping the returned log panicked: {panic}"), "drop-panicked"));
                    }
                }
            }
            let _ = verif_hooks::take_events();
            if steps > step_bound {
                return Err(failure(format!("damages {described:?}: recovery loaded {steps} blocks for a directory of {total_blocks} blocks in {} files", image.files.len()), "too-many-block-loads"));
            }
            let structurally_or_inside = damages.iter().any(|damage| !matches!(damage, CDamage::Stray { .. }));
            if structurally_or_inside && (parsed_entry || !from_scratch) {
                env.nontrivial(mix(history_hash, hash64(&damages)));
                env.sample(|| json!({"ops": ops_sample(&cops), "from_scratch": from_scratch, "damages": described}));
            }
            for damage in &damages {
                env.class(&format!("damage:{}", kind_of(damage)));
            }
        }
        env.scratch.remove(&dir);
        env.scratch.remove(&damaged_dir);
        Ok(())
    }
}

fn kind_of(damage: &CDamage) -> &'static str {
    match damage {
        CDamage::Write { hex, .. } => {
            if hex.len() > 2 * 7 && hex.len() < 2 * 3 * BLOCK && hex.len() != 2 * BLOCK { "overwrite-or-crafted" } else { "overwrite" }
        }
        CDamage::Fill { .. } => "zero-run",
        CDamage::SetLen { .. } => "set-len",
        CDamage::Remove { .. } => "remove-file",
        CDamage::Copy { from, .. } => if from.is_empty() { "crafted-new-file" } else { "duplicate-file" },
        CDamage::SwapFiles { .. } => "swap-files",
        CDamage::SwapBlocks { .. } => "swap-blocks",
        CDamage::Stray { .. } => "stray-file",
        CDamage::Dir { .. } => "sub-directory",
        CDamage::Symlink { .. } => "symlink",
    }
}

fn describe_any(damage: &CDamage) -> String {
    match damage {
        CDamage::Copy { from, to } if from.is_empty() => {
            let (name, hex) = to.split_once('|').unwrap_or((to, ""));
            format!("new file {name} starting with {} crafted bytes", hex.len() / 2)
        }
        other => super::c12::describe_damage(other),
    }
}
