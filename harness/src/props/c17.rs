//! C17 — only wal-<20 digits> files are ever read, created or deleted.

use std::cell::RefCell;
use std::collections::BTreeMap;
use std::path::Path;

use proptest::strategy::BoxedStrategy;
use serde_json::json;

use crate::case::{ops_sample, Case, CaseError, Env, Tier};
use crate::exec::Exec;
use crate::iotrace::{Effect, Image};
use crate::model::diff_states;
use crate::ops::{COp, GenCfg, Pay, Policy, QName, SOp};
use crate::runner::Property;
use crate::util::{hash64, wal_name, wal_number};

pub struct C17;

const PHANTOM: &str = "__phantom__";

fn gen_cfg(tier: Tier) -> GenCfg {
    let mut cfg = super::c01::gen_cfg(tier);
    cfg.max_ops = if tier == Tier::Quick { 40 } else { 100 };
    cfg.restart_policies = vec![];
    cfg.w_restart = 10;
    cfg
}

thread_local! {
    static PHANTOM_WAL: RefCell<Option<Vec<u8>>> = RefCell::new(None);
}

/// Bytes of a valid WAL file that creates queue `__phantom__` and appends one record to it.
fn phantom_wal(env: &mut Env) -> Result<Vec<u8>, CaseError> {
    if let Some(bytes) = PHANTOM_WAL.with(|slot| slot.borrow().clone()) {
        return Ok(bytes);
    }
    let dir = env.scratch.fresh("c17-phantom");
    let mut exec = Exec::new(&dir, Policy::DEFAULT)?;
    exec.step_concrete(COp::Create { q: QName::plain(PHANTOM) })?;
    exec.step_concrete(COp::Append {
        q: QName::plain(PHANTOM),
        pos: None,
        batch: vec![Pay { len: 100, seed: 1, style: 0 }],
    })?;
    exec.driver.close()?;
    let bytes = std::fs::read(dir.join(wal_name(0))).map_err(|err| CaseError::Engine(format!("phantom wal: {err}")))?;
    env.scratch.remove(&dir);
    PHANTOM_WAL.with(|slot| *slot.borrow_mut() = Some(bytes.clone()));
    Ok(bytes)
}

#[derive(Clone, Debug, PartialEq, Eq)]
enum Foreign {
    File(Vec<u8>),
    Dir(Vec<(String, Vec<u8>)>),
    Symlink(String),
}

const NEAR_MISS: [&str; 12] = [
    "wal-0000000000000000001",      // 19 digits
    "wal-000000000000000000001",    // 21 digits
    "WAL-00000000000000000001",
    "wal_00000000000000000001",
    "wal-0000000000000000000\u{0663}", // 24 bytes, last digit is ARABIC-INDIC DIGIT THREE
    "wal-00000000000000000001.bak",
    "wal-0000000000000000000a",
    "wal-+0000000000000000001",
    " wal-0000000000000000001",
    "wal-00000000000000000001 ",
    "xwal-0000000000000000001",
    "wal-0000000000 000000001",
];

const OTHER: [&str; 4] = ["LOCK", "README.md", ".hidden", "data.bin"];

/// Chooses a set of foreign entries from `word` (always >= 1 near-miss file and >= 1 directory / symlink).
fn foreign_set(word: u64, phantom: &[u8]) -> BTreeMap<String, Foreign> {
    let mut set = BTreeMap::new();
    for (idx, name) in NEAR_MISS.iter().enumerate() {
        if idx as u64 == word % NEAR_MISS.len() as u64 || (word >> (8 + idx)) & 1 == 1 {
            set.insert(name.to_string(), Foreign::File(phantom.to_vec()));
        }
    }
    for (idx, name) in OTHER.iter().enumerate() {
        if (word >> (24 + idx)) & 1 == 1 {
            set.insert(name.to_string(), Foreign::File(phantom.to_vec()));
        }
    }
    // WAL-shaped names for non-regular entries, far out of the writer's reach
    let dir_name = wal_name(900_000 + (word >> 32) % 1000);
    set.insert(
        dir_name,
        Foreign::Dir(vec![(wal_name(0), phantom.to_vec()), ("inner.txt".to_string(), b"keep".to_vec())]),
    );
    if (word >> 30) & 1 == 1 {
        set.insert("subdir".to_string(), Foreign::Dir(vec![(wal_name(1), phantom.to_vec())]));
    }
    // a symlink with a WAL-shaped name pointing at a foreign file holding a valid WAL image
    set.insert("target.bin".to_string(), Foreign::File(phantom.to_vec()));
    set.insert(wal_name(950_000 + (word >> 40) % 1000), Foreign::Symlink("target.bin".to_string()));
    if (word >> 31) & 1 == 1 {
        set.insert("dangling".to_string(), Foreign::Symlink("does-not-exist".to_string()));
    }
    set
}

fn place(dir: &Path, set: &BTreeMap<String, Foreign>) -> Result<(), CaseError> {
    let err = |err: std::io::Error| CaseError::Engine(format!("placing foreign entries: {err}"));
    for (name, entry) in set {
        let path = dir.join(name);
        if std::fs::symlink_metadata(&path).is_ok() {
            continue;
        }
        match entry {
            Foreign::File(bytes) => std::fs::write(&path, bytes).map_err(err)?,
            Foreign::Dir(children) => {
                std::fs::create_dir(&path).map_err(err)?;
                for (child, bytes) in children {
                    std::fs::write(path.join(child), bytes).map_err(err)?;
                }
            }
            Foreign::Symlink(target) => std::os::unix::fs::symlink(target, &path).map_err(err)?,
        }
    }
    Ok(())
}

/// Reads back the foreign entries; returns what is there for each expected name.
fn read_foreign(dir: &Path, set: &BTreeMap<String, Foreign>) -> BTreeMap<String, Option<Foreign>> {
    let mut found = BTreeMap::new();
    for name in set.keys() {
        let path = dir.join(name);
        let entry = match std::fs::symlink_metadata(&path) {
            Err(_) => None,
            Ok(meta) => {
                if meta.file_type().is_symlink() {
                    std::fs::read_link(&path).ok().map(|target| Foreign::Symlink(target.to_string_lossy().to_string()))
                } else if meta.is_dir() {
                    let mut children = Vec::new();
                    if let Ok(read_dir) = std::fs::read_dir(&path) {
                        for child in read_dir.flatten() {
                            children.push((child.file_name().to_string_lossy().to_string(), std::fs::read(child.path()).unwrap_or_default()));
                        }
                    }
                    children.sort();
                    Some(Foreign::Dir(children))
                } else {
                    std::fs::read(&path).ok().map(Foreign::File)
                }
            }
        };
        found.insert(name.clone(), entry);
    }
    found
}

fn is_wal_shaped(name: &str) -> bool {
    name.len() == 24 && name.starts_with("wal-") && name.as_bytes()[4..].iter().all(u8::is_ascii_digit)
}

fn check_foreign(exec: &Exec, dir: &Path, set: &BTreeMap<String, Foreign>, when: &str) -> Result<(), CaseError> {
    let mut expected: BTreeMap<String, Option<Foreign>> = BTreeMap::new();
    for (name, entry) in set {
        let mut entry = entry.clone();
        if let Foreign::Dir(children) = &mut entry {
            children.sort();
        }
        expected.insert(name.clone(), Some(entry));
    }
    let found = read_foreign(dir, set);
    for (name, want) in &expected {
        let got = &found[name];
        if got != want {
            let describe = |entry: &Option<Foreign>| match entry {
                None => "missing".to_string(),
                Some(Foreign::File(bytes)) => format!("file of {} bytes (hash {:x})", bytes.len(), hash64(bytes)),
                Some(Foreign::Dir(children)) => format!("directory with {} entries", children.len()),
                Some(Foreign::Symlink(target)) => format!("symlink -> {target}"),
            };
            return Err(exec.failure(
                format!("{when}: foreign entry {name:?} was touched: expected {}, found {}", describe(want), describe(got)),
                "foreign-entry-touched",
                json!({}),
            ));
        }
    }
    // every other entry must be a WAL-shaped regular file
    let read_dir = std::fs::read_dir(dir).map_err(|err| CaseError::Engine(format!("read_dir: {err}")))?;
    for entry in read_dir.flatten() {
        let name = entry.file_name().to_string_lossy().to_string();
        if set.contains_key(&name) {
            continue;
        }
        let is_file = entry.file_type().map(|file_type| file_type.is_file()).unwrap_or(false);
        if !is_wal_shaped(&name) || !is_file {
            return Err(exec.failure(
                format!("{when}: the library left a directory entry {name:?} that is not a wal-<20 digits> regular file"),
                "non-wal-entry-created",
                json!({}),
            ));
        }
    }
    for (kind, name) in &exec.driver.tracer.names_seen {
        if !is_wal_shaped(name) || set.contains_key(name) {
            return Err(exec.failure(
                format!("{when}: the library performed '{kind}' on {name:?}, which is not one of its wal-<20 digits> files"),
                "non-wal-name-used",
                json!({}),
            ));
        }
    }
    if exec.driver.log.as_ref().map(|log| log.queue_exists(PHANTOM)).unwrap_or(false) {
        return Err(exec.failure(
            format!("{when}: queue {PHANTOM:?} exists: a foreign file was read as log data"),
            "foreign-file-read",
            json!({}),
        ));
    }
    Ok(())
}

impl Property for C17 {
    fn id(&self) -> &'static str {
        "C17"
    }

    fn rule(&self) -> String {
        "generated histories (roll-over, GC, restarts) run in a directory into which a generated set of foreign entries \
         is placed before the first open and before restarts: near-miss names (19 / 21 digits, WAL-, wal_, a non-ASCII \
         digit giving 24 bytes, trailing junk, '+', spaces), other names, sub-directories and symlinks with WAL-shaped \
         names out of the writer's reach; every foreign regular file (and the symlink target, and files inside the \
         sub-directories) holds a VALID WAL image that creates queue __phantom__. Oracle after every restart and at the \
         end: every foreign entry unchanged (type, bytes, link target, children), __phantom__ never exists, every name in \
         the hook's create/open/unlink events and every other directory entry is a wal-<20 digits> regular file, state == \
         reference model. Metamorphic renumbering: the final WAL files are renamed order-preservingly to numbers with \
         generated gaps; the directory must open to the same state and the next file created must be max+1. \
         evaluations = foreign-entry audits + renumbered opens. non-trivial = history with >= 1 unlink while >= 1 \
         near-miss file and >= 1 WAL-shaped directory/symlink were present; distinct = hash(foreign set, concrete history)."
            .to_string()
    }

    fn assumptions(&self) -> Vec<String> {
        vec![
            "WAL-shaped names of directories / symlinks are numbered beyond the writer's reach (a collision with the next file number is an I/O error by design, not a C17 matter)".to_string(),
            "renumbered file numbers stay below 2^62".to_string(),
        ]
    }

    fn cases(&self, tier: Tier) -> u32 {
        match tier {
            Tier::Quick => 5_000,
            Tier::Thorough => 60_000,
        }
    }

    fn strategy(&self, tier: Tier) -> BoxedStrategy<Case> {
        super::case_strategy(&gen_cfg(tier), vec![Policy::DEFAULT, Policy::DoNothing], 3)
    }

    fn run(&self, case: &Case, env: &mut Env) -> Result<(), CaseError> {
        let phantom = phantom_wal(env)?;
        let word = |idx: usize| case.words.get(idx).copied().unwrap_or(0) as u64;
        let set_word = word(0) | (word(1) << 32);
        let set = foreign_set(set_word, &phantom);
        let dir = env.scratch.fresh("c17");
        place(&dir, &set)?;
        let mut exec = Exec::new(&dir, case.policy)?;
        let mut ops = case.ops.clone();
        ops.push(SOp::Restart { policy: None });
        let mut unlinks = 0u64;
        check_foreign(&exec, &dir, &set, "after the first open")?;
        env.evals(1);
        for sop in &ops {
            let cop = exec.resolve(sop);
            let is_restart = matches!(cop, COp::Restart { .. });
            if is_restart {
                // entries may also appear while the log is closed
                exec.driver.close()?;
                place(&dir, &set)?;
            }
            let step = exec.step_concrete(cop)?;
            exec.check_outcome(&step)?;
            unlinks += exec.effects()[step.effects.clone()].iter().filter(|effect| matches!(effect, Effect::Unlink { .. })).count() as u64;
            if is_restart {
                exec.check_state("after restart")?;
                check_foreign(&exec, &dir, &set, &format!("after op #{} (restart)", step.idx))?;
                env.evals(1);
            }
        }
        check_foreign(&exec, &dir, &set, "at the end")?;
        exec.driver.close()?;
        // metamorphic renumbering
        let image = Image::from_dir(&dir).map_err(|err| CaseError::Engine(format!("read dir: {err}")))?;
        let numbers: Vec<u64> = image.files.keys().filter_map(|name| wal_number(name)).collect();
        let base = (word(2) % (1 << 20)) << (word(2) % 40);
        let gap = 1 + (word(2) >> 20) % 1000;
        let mut renamed = Image::default();
        let mut last_number = 0u64;
        for (idx, number) in numbers.iter().enumerate() {
            let new_number = base + number - numbers[0] + idx as u64 * gap;
            last_number = new_number;
            renamed.files.insert(wal_name(new_number), image.files[&wal_name(*number)].clone());
        }
        let renum_dir = env.scratch.fresh("c17-renum");
        renamed.materialize(&renum_dir).map_err(|err| CaseError::Engine(format!("materialize: {err}")))?;
        place(&renum_dir, &set)?;
        let expected_state = exec.model.state();
        let (mut driver, outcome) = crate::driver::Driver::open(&renum_dir, case.policy)?;
        env.evals(1);
        if outcome != crate::model::Outcome::Restarted {
            return Err(exec.failure(
                format!("renumbered WAL files {:?} (from {:?}): open failed: {outcome:?}", renamed.files.keys().collect::<Vec<_>>(), numbers),
                "renumbered-open-failed",
                json!({"base": base, "gap": gap}),
            ));
        }
        let state = driver.observe().map_err(|msg| exec.failure(format!("renumbered: {msg}"), "observe-failed", json!({})))?;
        if let Some(diff) = diff_states(&expected_state, &state) {
            return Err(exec.failure(
                format!("WAL files renumbered from {:?} to {:?} (order preserved, gaps) recover a different state: {diff}",
                    numbers, renamed.files.keys().filter_map(|name| wal_number(name)).collect::<Vec<_>>()),
                "renumbered-state-differs",
                json!({"base": base, "gap": gap}),
            ));
        }
        // force a roll-over: the next file must be max+1
        let mut renum_exec = Exec::resume(driver, &state);
        let before = renum_exec.driver.tracer.names_seen.len();
        renum_exec.step_concrete(COp::Create { q: QName::plain("__roll__") })?;
        for round in 0..3u64 {
            renum_exec.step_concrete(COp::Append {
                q: QName::plain("__roll__"),
                pos: None,
                batch: vec![Pay { len: crate::util::file_bytes() as u32 / 2, seed: round, style: 0 }],
            })?;
        }
        let created: Vec<String> = renum_exec.driver.tracer.names_seen[before..]
            .iter()
            .filter(|(kind, _)| *kind == "create")
            .map(|(_, name)| name.clone())
            .collect();
        if created.first() != Some(&wal_name(last_number + 1)) {
            return Err(exec.failure(
                format!("after renumbering to max file {last_number}, the first file created on roll-over is {:?}, expected {:?}", created.first(), wal_name(last_number + 1)),
                "renumbered-next-file",
                json!({"base": base, "gap": gap}),
            ));
        }
        check_foreign(&renum_exec, &renum_dir, &set, "in the renumbered directory")?;
        renum_exec.driver.close()?;
        driver = renum_exec.driver;
        drop(driver);
        env.scratch.remove(&renum_dir);
        env.class_n("unlinks", unlinks);
        env.class_n("foreign-entries", set.len() as u64);
        if numbers.len() >= 2 {
            env.class("renumbered-2+-files");
        }
        if unlinks >= 1 {
            env.nontrivial(hash64(&(set_word, &exec.cops)));
            env.sample(|| json!({"foreign": set.keys().collect::<Vec<_>>(), "ops": ops_sample(&exec.cops), "unlinks": unlinks,
                "renumbered_from": numbers, "renumber_base": base, "renumber_gap": gap}));
        }
        env.scratch.remove(&dir);
        Ok(())
    }
}
