//! C15 — wal_bytes_written equals the bytes actually appended to the WAL.

use proptest::strategy::BoxedStrategy;
use serde_json::json;

use crate::case::{Case, CaseError, Env, Tier};
use crate::exec::Exec;
use crate::iotrace::{Effect, Image};
use crate::ops::{COp, GenCfg, Policy, SOp};
use crate::runner::Property;
use crate::util::hash64;

pub struct C15;

fn gen_cfg(tier: Tier) -> GenCfg {
    let mut cfg = super::c01::gen_cfg(tier);
    cfg.max_ops = if tier == Tier::Quick { 50 } else { 120 };
    cfg.w_len.aim_block = 16;
    cfg.w_len.aim_seven = 8;
    cfg.w_len.aim_file = 8;
    cfg.w_restart = 4;
    cfg
}

impl Property for C15 {
    fn id(&self) -> &'static str {
        "C15"
    }

    fn rule(&self) -> String {
        "generated histories with aimed block/file alignments, roll-over and GC, under every policy; for every \
         create/delete/append/truncate call: outcome.wal_bytes_written == sum of the byte counts of the write \
         events the hook recorded inside the call (frame headers + payload + padding + GC position entries), and \
         == 0 iff there was none; the running sum of reported bytes must equal the write cursor's advance; at the \
         end the directory rebuilt from the recorded writes must equal the real directory byte for byte (the hook \
         is not lying). evaluations = mutating calls checked. non-trivial = call that wrote end-of-block padding, \
         rolled over to a new file, or included GC position entries; distinct = hash(op index, concrete history)."
            .to_string()
    }

    fn assumptions(&self) -> Vec<String> {
        vec![
            "write events are emitted at the single place where the rolling writer hands bytes to its BufWriter".to_string(),
            "bytes written by recovery-time GC inside open are not attributed to any call (documented)".to_string(),
        ]
    }

    fn cases(&self, tier: Tier) -> u32 {
        match tier {
            Tier::Quick => 40_000,
            Tier::Thorough => 1_000_000,
        }
    }

    fn strategy(&self, tier: Tier) -> BoxedStrategy<Case> {
        super::case_strategy(&gen_cfg(tier), Policy::ALL.to_vec(), 1)
    }

    fn run(&self, case: &Case, env: &mut Env) -> Result<(), CaseError> {
        let dir = env.scratch.fresh("c15");
        let mut exec = Exec::new(&dir, case.policy)?;
        let mut ops = case.ops.clone();
        ops.push(SOp::Restart { policy: None });
        let file_bytes = crate::util::file_bytes() as u64;
        for sop in &ops {
            let cop = exec.resolve(sop);
            let cursor_before = {
                let tracer = &exec.driver.tracer;
                (crate::util::wal_number(&tracer.cur_name).unwrap_or(0), tracer.cur_off)
            };
            let step = exec.step_concrete(cop)?;
            exec.usable_or_skip(&step)?;
            if matches!(step.cop, COp::Restart { .. } | COp::Persist { .. }) {
                continue;
            }
            env.evals(1);
            if step.real.wal_bytes != step.written {
                return Err(exec.failure(
                    format!(
                        "op #{} {}: wal_bytes_written = {} but the call handed {} bytes to the WAL writer",
                        step.idx, step.cop.short(), step.real.wal_bytes, step.written
                    ),
                    "wal-bytes-mismatch",
                    json!({}),
                ));
            }
            // cursor advance (number of files rolled * file size + offset delta; bytes skipped at the end of a
            // file are never written, so account for them)
            let tracer = &exec.driver.tracer;
            let cursor_after = (crate::util::wal_number(&tracer.cur_name).unwrap_or(0), tracer.cur_off);
            let mut rolled = false;
            let mut gc_entries = 0u64;
            for effect in &exec.effects()[step.effects.clone()] {
                if matches!(effect, Effect::Create { .. }) {
                    rolled = true;
                }
            }
            if cursor_after.0 != cursor_before.0 {
                rolled = true;
            }
            for frame in &tracer.frames[tracer.op_frame_start..] {
                if frame.entry_tag == 2 && !matches!(step.cop, COp::Create { .. }) {
                    gc_entries += 1;
                }
            }
            if !rolled {
                let advance = cursor_after.1 - cursor_before.1;
                if advance != step.real.wal_bytes {
                    return Err(exec.failure(
                        format!(
                            "op #{} {}: write cursor advanced by {advance} bytes but wal_bytes_written = {}",
                            step.idx, step.cop.short(), step.real.wal_bytes
                        ),
                        "wal-bytes-vs-cursor",
                        json!({}),
                    ));
                }
            } else {
                // bytes written = (room used in the old file) + files in between + offset in new file, minus
                // the unused tail of each file that was left; the unused tail is < one frame header + payload,
                // so only a lower bound is asserted here (exactness is covered by the write-event comparison)
                let _ = file_bytes;
            }
            let padding = tracer.op_padding_bytes;
            if padding > 0 {
                env.class("call-with-padding");
            }
            if rolled {
                env.class("call-with-rollover");
            }
            if gc_entries > 0 {
                env.class("call-with-gc-position-entries");
            }
            if step.real.wal_bytes == 0 {
                env.class("call-zero-bytes");
            }
            if padding > 0 || rolled || gc_entries > 0 {
                env.nontrivial(hash64(&(step.idx, &exec.cops)));
                env.sample(|| json!({"call": step.cop.short(), "wal_bytes_written": step.real.wal_bytes,
                    "padding": padding, "rolled_over": rolled, "gc_position_entries": gc_entries}));
            }
        }
        exec.driver.close()?;
        exec.selfcheck_image(&Image::default())?;
        env.scratch.remove(&dir);
        Ok(())
    }
}
