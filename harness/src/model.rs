//! Reference model of the queue map (DESIGN.md section 6). Deliberately naive.

use std::collections::BTreeMap;
use std::rc::Rc;

use crate::ops::{COp, QName};

pub type Bytes = Rc<[u8]>;

#[derive(Clone, Debug, PartialEq, Eq)]
pub struct QState {
    pub recs: Vec<(u64, Bytes)>,
    pub next: u64,
}

impl QState {
    pub fn first_position(&self) -> u64 {
        self.recs.first().map(|(pos, _)| *pos).unwrap_or(self.next)
    }
}

/// Observable state: queue name -> retained records + next position.
pub type State = BTreeMap<String, QState>;

#[derive(Clone, Debug, PartialEq, Eq)]
pub enum Outcome {
    Created,
    CreateExists,
    Deleted,
    DeleteMissing,
    /// `last`: last position appended, `None` for an acknowledged no-op.
    Appended { last: Option<u64> },
    AppendMissing,
    AppendPast,
    Truncated { evicted: usize },
    TruncateMissing,
    Persisted,
    Restarted,
    /// Only produced by the real log.
    IoError(String),
    /// Only produced by the real log.
    Panic(String),
    /// Only produced by the real log: open failed.
    OpenFailed(String),
}

impl Outcome {
    /// Rejected or acknowledged-no-op outcomes (C13).
    pub fn is_noop(&self) -> bool {
        matches!(
            self,
            Outcome::CreateExists
                | Outcome::DeleteMissing
                | Outcome::AppendMissing
                | Outcome::AppendPast
                | Outcome::TruncateMissing
                | Outcome::Appended { last: None }
        )
    }

    pub fn class(&self) -> &'static str {
        match self {
            Outcome::Created => "create-ok",
            Outcome::CreateExists => "create-exists",
            Outcome::Deleted => "delete-ok",
            Outcome::DeleteMissing => "delete-missing",
            Outcome::Appended { last: Some(_) } => "append-ok",
            Outcome::Appended { last: None } => "append-noop",
            Outcome::AppendMissing => "append-missing",
            Outcome::AppendPast => "append-past",
            Outcome::Truncated { .. } => "truncate-ok",
            Outcome::TruncateMissing => "truncate-missing",
            Outcome::Persisted => "persist",
            Outcome::Restarted => "restart",
            Outcome::IoError(_) => "io-error",
            Outcome::Panic(_) => "panic",
            Outcome::OpenFailed(_) => "open-failed",
        }
    }
}

#[derive(Clone, Debug, Default)]
pub struct Model {
    pub queues: State,
    /// text -> compact name, for replay files.
    pub names: BTreeMap<String, QName>,
    /// Incarnation number of each live queue (bumped at every successful create).
    pub incarnation: BTreeMap<String, u64>,
    pub incarnation_counter: u64,
}

impl Model {
    pub fn from_state(state: &State) -> Model {
        let mut model = Model::default();
        for (name, queue) in state {
            model.queues.insert(name.clone(), queue.clone());
            model.names.insert(name.clone(), QName::plain(name));
            model.incarnation_counter += 1;
            model
                .incarnation
                .insert(name.clone(), model.incarnation_counter);
        }
        model
    }

    pub fn state(&self) -> State {
        self.queues.clone()
    }

    /// Applies `op`; payload bytes are taken from `payloads` when given (so that the bytes handed
    /// to the real log and to the model are the same allocation), else generated.
    pub fn apply(&mut self, op: &COp, payloads: Option<&[Bytes]>) -> Outcome {
        match op {
            COp::Create { q } => {
                let name = q.text();
                if self.queues.contains_key(&name) {
                    return Outcome::CreateExists;
                }
                self.queues.insert(
                    name.clone(),
                    QState {
                        recs: Vec::new(),
                        next: 0,
                    },
                );
                self.names.insert(name.clone(), q.clone());
                self.incarnation_counter += 1;
                self.incarnation.insert(name, self.incarnation_counter);
                Outcome::Created
            }
            COp::Delete { q } => {
                let name = q.text();
                if self.queues.remove(&name).is_none() {
                    return Outcome::DeleteMissing;
                }
                self.names.remove(&name);
                self.incarnation.remove(&name);
                Outcome::Deleted
            }
            COp::Append { q, pos, batch } => {
                let name = q.text();
                let Some(queue) = self.queues.get_mut(&name) else {
                    return Outcome::AppendMissing;
                };
                if let Some(pos) = pos {
                    if pos + 1 == queue.next {
                        return Outcome::Appended { last: None };
                    }
                    if *pos < queue.next {
                        return Outcome::AppendPast;
                    }
                }
                if batch.is_empty() {
                    return Outcome::Appended { last: None };
                }
                let mut position = pos.unwrap_or(queue.next);
                for (idx, pay) in batch.iter().enumerate() {
                    let bytes: Bytes = match payloads {
                        Some(payloads) => payloads[idx].clone(),
                        None => Rc::from(pay.bytes()),
                    };
                    queue.recs.push((position, bytes));
                    position += 1;
                }
                queue.next = position;
                Outcome::Appended {
                    last: Some(position - 1),
                }
            }
            COp::Truncate { q, pos } => {
                let name = q.text();
                let Some(queue) = self.queues.get_mut(&name) else {
                    return Outcome::TruncateMissing;
                };
                let before = queue.recs.len();
                queue.recs.retain(|(position, _)| position > pos);
                let evicted = before - queue.recs.len();
                if queue.recs.is_empty() && pos + 1 > queue.next {
                    queue.next = pos + 1;
                }
                Outcome::Truncated { evicted }
            }
            COp::Persist { .. } => Outcome::Persisted,
            COp::Restart { .. } => Outcome::Restarted,
        }
    }
}

/// Human-readable summary of a state (for failure messages and samples).
pub fn describe_state(state: &State) -> String {
    let mut parts = Vec::new();
    for (name, queue) in state {
        let shown: String = if name.len() > 16 {
            format!("{}..({}B)", name.chars().take(6).collect::<String>(), name.len())
        } else {
            name.clone()
        };
        let positions: Vec<String> = if queue.recs.len() > 8 {
            let mut list: Vec<String> = queue.recs[..4]
                .iter()
                .map(|(pos, bytes)| format!("{pos}:{}B", bytes.len()))
                .collect();
            list.push(format!("..{} more..", queue.recs.len() - 6));
            list.extend(
                queue.recs[queue.recs.len() - 2..]
                    .iter()
                    .map(|(pos, bytes)| format!("{pos}:{}B", bytes.len())),
            );
            list
        } else {
            queue
                .recs
                .iter()
                .map(|(pos, bytes)| format!("{pos}:{}B", bytes.len()))
                .collect()
        };
        parts.push(format!("{shown}[{}]next={}", positions.join(","), queue.next));
    }
    format!("{{{}}}", parts.join(" "))
}

/// First difference between two states, as text.
pub fn diff_states(expected: &State, got: &State) -> Option<String> {
    for (name, queue) in expected {
        let Some(other) = got.get(name) else {
            return Some(format!("queue {name:?} expected but missing"));
        };
        if queue.next != other.next {
            return Some(format!(
                "queue {name:?}: next position expected {} got {}",
                queue.next, other.next
            ));
        }
        if queue.recs.len() != other.recs.len() {
            let exp: Vec<u64> = queue.recs.iter().map(|(pos, _)| *pos).take(12).collect();
            let gotp: Vec<u64> = other.recs.iter().map(|(pos, _)| *pos).take(12).collect();
            return Some(format!(
                "queue {name:?}: expected {} records (first {:?}) got {} (first {:?})",
                queue.recs.len(),
                exp,
                other.recs.len(),
                gotp
            ));
        }
        for ((pos_a, bytes_a), (pos_b, bytes_b)) in queue.recs.iter().zip(other.recs.iter()) {
            if pos_a != pos_b {
                return Some(format!(
                    "queue {name:?}: expected position {pos_a} got {pos_b}"
                ));
            }
            if !Rc::ptr_eq(bytes_a, bytes_b) && bytes_a != bytes_b {
                return Some(format!(
                    "queue {name:?}: payload at position {pos_a} differs (expected {} bytes, got {})",
                    bytes_a.len(),
                    bytes_b.len()
                ));
            }
        }
    }
    for name in got.keys() {
        if !expected.contains_key(name) {
            return Some(format!("unexpected queue {name:?}"));
        }
    }
    None
}
