#!/bin/bash
# Confirms a seeded change delivered by a sub-agent in /tmp/seed/<ID>/_seed/{patchN,demoN}.diff:
#   demo passes without the patch, fails with it, and the unedited suite passes with the patch.
# usage: tools/confirm_seed.sh <ID> <N>
set -u
ID="$1"; N="$2"; WT="${SEED_BASE:-/tmp/seed}/$ID"; S="$WT/_seed"
cd "$WT" || exit 2
git checkout -q -- . ; git clean -fdq -e _seed -e target
git apply "$S/demo$N.diff" || { echo "CONFIRM $ID/$N: demo does not apply"; exit 1; }
mods=$(grep -hE '^\+.*mod [a-z_0-9]+;' "$S/demo$N.diff" | sed -E 's/.*mod ([a-z_0-9]+);.*/\1/' | sort -u | tr '\n' ' ')
filter=$(echo $mods | awk '{print $1}')
[ -z "$filter" ] && filter="seed_demo"
FEAT="${SEED_FEATURES:-}"
out1=$(cargo test --offline $FEAT --lib "$filter" 2>&1 | grep -E "^test result" | head -1)
git apply "$S/patch$N.diff" || { echo "CONFIRM $ID/$N: patch does not apply on demo"; git checkout -q -- .; git clean -fdq -e _seed -e target; exit 1; }
out2=$(cargo test --offline $FEAT --lib "$filter" 2>&1 | grep -E "^test result" | head -1)
git checkout -q -- . ; git clean -fdq -e _seed -e target
git apply "$S/patch$N.diff"
out3=$(cargo test --workspace --no-fail-fast --offline 2>&1 | grep -E "^test result" | tr '\n' '|')
git checkout -q -- . ; git clean -fdq -e _seed -e target
echo "CONFIRM $ID/$N filter=$filter"
echo "  demo without patch: $out1"
echo "  demo with patch:    $out2"
echo "  suite with patch:   $out3"
