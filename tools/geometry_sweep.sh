#!/bin/bash
# Re-runs one property with WAL files of 2 and of 8 blocks (the hook reads MRECORDLOG_VERIF_BLOCKS_PER_FILE at
# build time) and records the result under coverage.geometry_sweep of its evidence file.
#   tools/geometry_sweep.sh <ID> <cases>
set -u
ROOT="$(cd "$(dirname "$0")/.." && pwd)"
ID="$1"; CASES="$2"
export CARGO_NET_OFFLINE=true
status=0
for blocks in 2 8 4096; do
  target="$ROOT/harness/target-geom$blocks"
  tier=thorough; cases="$CASES"; scale=1; workers="${VERIF_WORKERS:-16}"
  if [ "$blocks" = "4096" ]; then
    # the shipped geometry (128 MiB files, sparse on tmpfs): few, short histories with payloads of 5..80 MiB
    tier=quick; cases="${VERIF_GEOMETRY_PROD_CASES:-240}"; scale=256; workers=8
  fi
  if ! (cd "$ROOT/harness" && MRECORDLOG_VERIF_BLOCKS_PER_FILE=$blocks CARGO_TARGET_DIR="$target" cargo build --release --offline -q 2>"$ROOT/harness/build-geom.log"); then
    echo "ENGINE-ERROR: geometry build ($blocks blocks) failed"; tail -n 20 "$ROOT/harness/build-geom.log"; exit 2
  fi
  scratch="/dev/shm/verif-geom-$$-$blocks"; [ -d /dev/shm ] || scratch="${TMPDIR:-/tmp}/verif-geom-$$-$blocks"
  mkdir -p "$scratch"; cp "$ROOT/KNOWN_FINDINGS.txt" "$scratch/"
  out=$(cd "$scratch" && VERIF_ROOT="$scratch" VERIF_CASES="$cases" VERIF_LEN_SCALE="$scale" VERIF_WORKERS="$workers" "$target/release/verif-harness" "$ID" --tier $tier 2>&1); code=$?
  echo "geometry blocks_per_file=$blocks: $(echo "$out" | grep -E "^$ID tier" | head -1)"
  python3 - "$ROOT/evidence/$ID.json" "$scratch/evidence/$ID.json" "$blocks" <<'PY'
import json, sys
main_path, sub_path, blocks = sys.argv[1:]
try:
    main = json.load(open(main_path)); sub = json.load(open(sub_path))
except Exception:
    sys.exit(0)
cov = sub.get("coverage", {})
main.setdefault("coverage", {}).setdefault("geometry_sweep", {})[f"{blocks}_blocks_per_file"] = {
    "generated_cases": cov.get("generated_cases"), "evaluations": cov.get("evaluations"),
    "distinct_nontrivial": cov.get("distinct_nontrivial"), "classes": cov.get("classes"), "violations": sub.get("violations"),
}
main["coverage"]["evaluations"] = int(main["coverage"].get("evaluations", 0)) + int(cov.get("evaluations", 0) or 0)
main["violations"] = int(main.get("violations", 0)) + int(sub.get("violations", 0) or 0)
json.dump(main, open(main_path, "w"), indent=2)
PY
  if [ $code -eq 1 ]; then
    mkdir -p "$ROOT/out/replays"
    for replay in "$scratch"/out/replays/*.json; do
      [ -f "$replay" ] || continue
      dest="$ROOT/out/replays/$(basename "${replay%.json}")-geom$blocks.json"; cp "$replay" "$dest"
      echo "violation detail: with WAL files of $blocks blocks (replay with MRECORDLOG_VERIF_BLOCKS_PER_FILE=$blocks ./check $ID --replay $dest)"
      echo "VIOLATION property=$ID replay=$dest"
    done
    status=1
  elif [ $code -ne 0 ]; then
    echo "$out" | tail -n 5; [ $status -eq 0 ] && status=2
  fi
  rm -rf "$scratch"
done
exit $status
