#!/usr/bin/env python3
"""Writes /verif/MANIFEST.json from the table below (kept in one place so that it stays valid)."""
import json, os, subprocess

ROOT = os.path.dirname(os.path.dirname(os.path.abspath(__file__)))

HOOK_COMMITS = subprocess.run(
    ["git", "-C", "/repo", "log", "--format=%H %s"], capture_output=True, text=True
).stdout.splitlines()
HOOK_COMMITS = [line.split()[0] for line in HOOK_COMMITS if " verif hooks" in line or "verif-hooks" in line]

# id -> (category, technique, level text, level note, design ref)
CHECKS = {
    "C01": ("exploration", "stateful model-based property testing (proptest) with restarts; reference-model oracle",
            "Generated call histories (all call shapes, 128 KiB WAL files so roll-over and GC happen within a few ops) with restarts at generated points; at every restart the full observable state after the re-open is compared, byte for byte, with the state observed before the drop (model-free), the re-open must succeed, and a probe append on every queue checks the next position. Sampling, not proof: it holds on the N histories explored.",
            "Trusted: the public read API as observer, the small-file geometry hook (same code, one constant), proptest's generators; the reference model only resolves generated selectors.", "9/C01"),
    "C05": ("exploration", "stateful model-based property testing (proptest); reference-model oracle after every call",
            "Every call outcome and every read accessor (range with generated bound pairs, last_position, last_record, list_queues, queue_exists, summary) is compared with the reference model after every single call of generated histories, including calls on missing names, empty batches (also through iterators with inexact size hints), retries, past/future positions and future truncations; the model is re-seeded from the observed state at restarts. Thorough adds a coverage-guided libFuzzer target with the same oracle.",
            "Trusted: the reference model; positions < 2^62.", "9/C05"),
    "C13": ("exploration", "stateful property testing (proptest) + I/O-trace invariant per rejected/no-op call",
            "For every call whose shape the statement lists (missing / existing queue, past position, retry, empty batch — recognised by the reference model) and whatever the implementation answers: zero reported bytes, empty hook trace, byte-identical directory, unchanged observable state.",
            "Trusted: I/O event hook placement (rolling directory layer), reference model for classifying calls.", "9/C13"),
    "C15": ("exploration", "stateful property testing (proptest); differential oracle: reported bytes vs hook-recorded writes",
            "Per mutating call, wal_bytes_written is compared with the bytes the rolling writer actually received during that call (hook write events), across aimed block/file alignments, roll-over and GC; the hook itself is cross-checked by rebuilding the directory from its events and comparing with the real files.",
            "Trusted: write events are emitted where the rolling writer hands bytes to its BufWriter.", "9/C15"),
    "C16": ("exploration", "stateful property testing (proptest); model-derived bounds on resource_usage after every call",
            "After every call of generated histories the memory accounting is bracketed by bounds computed from what the log itself returns (names + payload <= used <= names + payload + 64*records; used <= allocated; truncation releases what it evicts; names-only baseline when all queues are empty).",
            "Trusted: list_queues / range(..) as the measure of retained data; 64 B/record as the reading of 'small constant'.", "9/C16"),
}

CHECKS.update({
    "C06": ("exploration", "stateful property testing (proptest); history invariant over the directory listing, with file-of-origin tracked independently from the I/O trace",
            "After every truncate / delete_queue / open of generated multi-queue histories the directory listing is compared with an independently computed bound (oldest file any retained record was appended into, file current at call begin); contiguity, ending at the writer's file and disk_used_bytes are checked too. The same audit runs after the open that recovers from a crash at enumerated crash points inside roll-over calls (this found D7, recorded as known finding continuation-only-file-kept-after-crash).",
            "Trusted: the I/O trace's notion of 'current file'; premature deletion is left to C01.", "9/C06"),
    "C14": ("exploration", "differential property testing (proptest): same concrete history under all 9 persist policies in lock-step",
            "The same generated call sequence is executed under every policy (the reference policy twice, as a determinism guard); outcomes, full observable states and disk_used_bytes are compared after every call and after a final restart against the Always(Flush) run.",
            "Trusted: OnDelay exercised at 0, 1 us and 1 h; wall clock not controlled.", "9/C14"),
    "C17": ("exploration", "stateful property testing (proptest) with generated foreign directory entries + metamorphic renumbering",
            "Generated sets of near-miss names, directories, symlinks and unix sockets (each holding a valid WAL image for a phantom queue) are placed in the directory before opens; after histories with roll-over and GC they must be untouched and never read, all names the library touches (hook events) and all names the kernel reports as created / deleted / renamed in the directory (inotify) must be wal-<20 digits>, and an order-preserving renumbering with gaps must recover the same state and continue at max+1.",
            "Trusted: hook events for create/open/unlink names; WAL-shaped foreign names kept out of the writer's reach.", "9/C17"),
    "C18": ("exploration", "metamorphic property testing (proptest): history vs. per-queue projection, no reference model",
            "For every queue of a generated multi-queue history the projected history is re-executed in a fresh directory and the queue's outcomes and observable content are compared at every projected call; additionally a call addressed to one queue must not change what any other queue returns. Crash variants: after a crash between calls or inside a call addressed to another queue, every other queue recovers exactly as after its own completed calls (flush-per-operation policies), or at least still exists (DoNothing).",
            "Trusted: nothing beyond the public API (the model is not used).", "9/C18"),
})

CHECKS.update({
    "C02": ("fault_enumeration", "crash-point enumeration over a recorded I/O trace of generated histories (proptest) + reference-model oracle + generated continuation",
            "Every effect boundary and aimed/generated byte cuts of every write of each generated history are turned into the directory image a process crash would leave, which the real open() then recovers; the recovered state must be the state the live log showed after the completed calls, optionally with the in-flight call (or a partially applied in-flight truncate/delete); a plain second restart must reproduce it; a generated continuation is applied in lock-step to the recovered log and to a freshly built never-crashed log with the same state (differential); recovery's own writes are crashed again (depth 2). Exhaustive for traces <= 4000 written bytes; sampled cuts otherwise.",
            "Trusted: process-crash model (program-order effects, atomic create/set_len/unlink), derivation of OS-level writes from BufWriter occupancy (self-checked against the real directory).", "9/C02"),
    "C03": ("fault_enumeration", "crash-point enumeration under two loss models (process crash, power loss) over recorded I/O traces of generated (policy, history) pairs; monotone 'at least as recent' oracle",
            "For every policy family and generated histories with explicit persist calls, each effect boundary (and byte cuts, for process crashes) is turned into the image left by a process crash (buffer lost) or by a power loss (adversarial: all unsynced bytes lost and all unlinks applied; mixed: generated prefixes), and the recovered state must be at least as recent as the last call whose return guarantees persistence under that model.",
            "Trusted: the power-loss model (per-file fdatasync, dir fsync for names, ordered name-space durability), which calls count as persistence points; S_P is the state the live log showed.", "9/C03"),
    "C04": ("fault_enumeration", "stateful property testing (proptest) with a model-free history invariant + crash-point enumeration with probe appends",
            "Watermark invariant (highest position assigned or truncated-to per queue incarnation) computed from real outcomes only, checked on every call/restart of generated histories with idle emptied queues and busy GC-ing queues, and on every enumerated crash image by probing last_position, retry, past and automatic appends on every surviving queue (at every other crash point after one more restart with no call in between), followed by a further restart.",
            "Trusted: process-crash model as C02.", "9/C04"),
    "C08": ("fault_enumeration", "generated in-place damage (aimed at frame fields + unaimed) on WAL images of generated histories; membership oracle against everything ever appended; separate decoy campaign",
            "12 damaged images per generated history, 1..4 in-place damage operations each; a successful open may only return records that were appended. The one known way to defeat this (payload embedding a CRC-valid frame + len overwrite) is isolated in a counted decoy campaign and recorded as known finding decoy-resync; further fixed campaigns: re-typed Last frame, orphan tail after GC, zero-filled Last frame followed by an entry of exactly the lost size.",
            "Trusted: 'up to a CRC-32 collision'; frame layout from hook write events.", "9/C08"),
    "C09": ("fault_enumeration", "single-frame payload/CRC damage enumerated over every frame of the WAL image of generated histories; loss oracle against the reference model",
            "Every frame present in the final image of each generated history is damaged in turn (payload or CRC bytes only); open must succeed and every retained record not written by the damaged entry must be recovered intact. An entry that was not hit keeps its effect: a queue absent at the end of the undamaged history may exist after recovery only if the damaged frame was written by the delete_queue call for that name.",
            "Trusted: frame layout and frame->call ownership from hook write events; the retained set is what the undamaged log returned.", "9/C09"),
    "C12": ("fault_enumeration", "crash-point enumeration + single-frame damage enumeration over generated batch-heavy histories; all-or-nothing oracle per batch",
            "For batch-dominated generated histories (multi-frame, multi-file entries) every enumerated crash image and every single-frame-damaged image is recovered and EVERY batch of the history must be recovered entirely, not at all, or as the suffix left by a requested truncation. Two-step variants: an entry of exactly the missing size appended after a crash between two frames; a same-size batch appended after header damage and crashed at every point inside that call.",
            "Trusted: process-crash model; for re-used queue names a recovered record is attributed to a batch by its bytes (only batches with >= 8 pseudo-random bytes per payload are judged).", "9/C12"),
})

CHECKS.update({
    "C07": ("exploration", "enumerated boundary grid + generated sequences through the record layer in memory (round-trip oracle), and generated aimed-alignment histories through files (reference-model oracle after restart)",
            "A dense grid of (in-block start offset, entry length, follower) around every block-boundary case is enumerated exhaustively through RecordWriter/RecordReader over in-memory blocks, with identity as oracle; generated append histories with lengths aimed at block ends, file ends and the 7-bytes-left case exercise the same alignments through real WAL files of 128 KiB, including entries spanning three files. Grid cells are repeated in a log that begins with a dangling First frame or with the orphan tail of an entry whose head is gone, and 96 cells carry entries crafted so that the frame checksum field is 0, 1, 0xFFFFFFFF, ...",
            "Trusted: the grid is a finite sub-space (labelled as such); in-memory route uses the harness' BlockWrite/BlockRead.", "9/C07"),
    "C10": ("fault_enumeration", "generated damage sequences of all kinds (in-place, structural, crafted CRC-valid frames) on WAL images of generated histories; crash oracle (no panic, bounded block loads, capped memory, watchdog)",
            "10 damaged directories per generated history, 1..8 damage operations each, including crafted frames with correct CRCs carrying hostile entry bytes; open must return, and every read accessor of a returned log must run, without panic; block loads are bounded by the directory size; address space is capped and a per-case watchdog with isolated confirmation turns hangs into violations.",
            "Trusted: catch_unwind sees every panic (panic=unwind build); duplicated files stay near the existing numbers.", "9/C10"),
    "C11": ("fault_enumeration", "exhaustive single-fault injection at every recovery I/O call of WAL images from generated histories",
            "For every generated multi-file image, every one of the N I/O calls recovery makes (counted by a dry run) is failed once, transiently and persistently, with a generated error kind; open must return Err(IoError) and never re-enter a persistently failing site 10 000 times.",
            "Trusted: fault sites cover read_dir, entries, file_type, open of WAL files and every block read in src/rolling/directory.rs.", "9/C11"),
})

NOT_YET = {
}

def main():
    props = [json.loads(line) for line in open(os.path.join(ROOT, "properties.jsonl"))]
    checks = []
    not_applicable = []
    for prop in props:
        pid = prop["id"]
        if pid in CHECKS:
            category, technique, text, note, ref = CHECKS[pid]
            checks.append({
                "property_id": pid,
                "quick_cmd": f"./check {pid} --tier quick",
                "thorough_cmd": f"./check {pid} --tier thorough",
                "evidence_file": f"/verif/evidence/{pid}.json",
                "replay_cmd_template": f"./check {pid} --replay {{path}}",
                "engine": "verif-harness",
                "level_claimed": {"category": category, "text": text, "design_ref": f"DESIGN.md section {ref}"},
                "level_note": note,
                "technique": technique,
            })
        else:
            not_applicable.append({
                "property_id": pid,
                "reason": NOT_YET.get(pid, "check not built yet in this session (planned in DESIGN.md section 9); not claimed until it runs clean"),
            })
    manifest = {
        "version": 1,
        "setup_cmd": "cd /verif/harness && CARGO_NET_OFFLINE=true cargo build --release --offline",
        "hooks": {
            "guard": "cargo feature verif-hooks (mrecordlog/Cargo.toml [features])",
            "enable": "the harness depends on mrecordlog = { path = \"/repo\", features = [\"verif-hooks\"] }; every ./check rebuilds it from /repo's working tree",
            "baseline_off_cmd": "cd /repo && cargo test --workspace --no-fail-fast --offline",
            "source_commits": HOOK_COMMITS,
            "add_only": False,
        },
        "engines": [
            {"name": "verif-harness", "path": "/verif/harness",
             "serves_properties": sorted(CHECKS.keys()),
             "kind_free_text": "Rust binary: proptest-driven stateful generators, reference model, I/O-trace based crash/fault/damage enumeration, 16 worker processes, shrinking to concrete replay files"},
        ],
        "checks": checks,
        "not_applicable": not_applicable,
        "notes": "add_only=false: the two cfg attribute lines selecting NUM_BLOCKS_PER_FILE in src/rolling/mod.rs were changed from cfg(test)/cfg(not(test)) to include the feature; everything else is additive and behind the feature. Exit codes: 0 held, 1 VIOLATION, 2 inconclusive/engine error.",
    }
    with open(os.path.join(ROOT, "MANIFEST.json"), "w") as out:
        json.dump(manifest, out, indent=1)
        out.write("\n")

if __name__ == "__main__":
    main()
