#!/bin/bash
# Fixed-work libFuzzer campaign for one target (thorough tier of C07 / C10), or replay of one saved input.
#   tools/fuzz_campaign.sh run <ID> <target> <runs_per_job>
#   tools/fuzz_campaign.sh replay <ID> <target> <file>
# exit 0: no crash; 1: crash (VIOLATION line printed); 2: could not build / run.
set -u
ROOT="$(cd "$(dirname "$0")/.." && pwd)"
MODE="$1"; ID="$2"; TARGET="$3"; ARG="$4"
export CARGO_NET_OFFLINE=true
cd "$ROOT" || exit 2
if ! cargo +nightly fuzz build --fuzz-dir fuzz "$TARGET" >"$ROOT/fuzz/build.log" 2>&1; then
  echo "ENGINE-ERROR: cargo fuzz build failed (see fuzz/build.log)"; tail -n 20 "$ROOT/fuzz/build.log"; exit 2
fi
BIN="$ROOT/fuzz/target/x86_64-unknown-linux-gnu/release/$TARGET"
[ -x "$BIN" ] || { echo "ENGINE-ERROR: fuzz binary not found"; exit 2; }
if [ "$MODE" = "replay" ]; then
  out=$("$BIN" "$ARG" 2>&1); code=$?
  echo "$out" | grep -E "violated|panicked|ERROR|SUMMARY" | head -5
  if [ $code -ne 0 ]; then echo "VIOLATION property=$ID replay=$ARG"; exit 1; fi
  echo "replay $ARG: no crash"; exit 0
fi
RUNS="$ARG"
SEED="${VERIF_SEED:-20260925}"; [ "$SEED" = "0" ] && SEED=1
WORK="/dev/shm/verif-fuzz-$$"; [ -d /dev/shm ] || WORK="${TMPDIR:-/tmp}/verif-fuzz-$$"
mkdir -p "$WORK/corpus" "$WORK/artifacts" "$ROOT/out/replays"
trap 'rm -rf "$WORK"' EXIT
SEEDS="$ROOT/fuzz/seeds/$TARGET"; mkdir -p "$SEEDS"
JOBS=$(nproc 2>/dev/null || echo 4); [ "$JOBS" -gt 16 ] && JOBS=16
cd "$WORK" || exit 2
start=$(date +%s)
"$BIN" "$WORK/corpus" "$SEEDS" -runs="$RUNS" -seed="$SEED" -jobs="$JOBS" -workers="$JOBS" -len_control=0 -max_len=4096 \
   -timeout=60 -rss_limit_mb=8192 -artifact_prefix="$WORK/artifacts/" -print_final_stats=1 >"$WORK/fuzz.out" 2>&1
code=$?
end=$(date +%s)
execs=$(cat "$WORK"/fuzz-*.log 2>/dev/null | grep -E "stat::number_of_executed_units" | awk '{s+=$2} END {print s+0}')
corpus=$(ls "$WORK/corpus" | wc -l)
crashes=$(ls "$WORK/artifacts" 2>/dev/null | wc -l)
echo "fuzz target=$TARGET jobs=$JOBS runs_per_job=$RUNS executed=$execs corpus=$corpus artifacts=$crashes wall=$((end-start))s exit=$code"
python3 - "$ROOT/evidence/$ID.json" "$TARGET" "$JOBS" "$RUNS" "$execs" "$corpus" "$crashes" "$((end-start))" <<'PY'
import json, sys
path, target, jobs, runs, execs, corpus, crashes, wall = sys.argv[1:]
try:
    evidence = json.load(open(path))
except Exception:
    sys.exit(0)
evidence.setdefault("coverage", {})["libfuzzer_campaign"] = {
    "target": target, "jobs": int(jobs), "runs_per_job": int(runs), "executed_units": int(execs),
    "final_corpus_files": int(corpus), "crash_artifacts": int(crashes), "wall_s": int(wall),
    "note": "coverage-guided, ASan, fixed -runs; only approximately reproducible: the saved input is the reproducible unit",
}
evidence["coverage"]["evaluations"] = int(evidence["coverage"].get("evaluations", 0)) + int(execs)
if int(crashes) > 0:
    evidence["violations"] = int(evidence.get("violations", 0)) + int(crashes)
json.dump(evidence, open(path, "w"), indent=2)
PY
if [ "$crashes" -gt 0 ]; then
  for artifact in "$WORK"/artifacts/*; do
    dest="$ROOT/out/replays/$ID-fuzz-$TARGET-$(basename "$artifact").bin"
    cp "$artifact" "$dest"
    reason="crash"; case "$(basename "$artifact")" in timeout-*) reason="timeout (hang)";; oom-*) reason="out of memory";; esac
    echo "violation detail: libFuzzer $reason in target $TARGET"
    grep -h -m2 -E "violated|panicked" "$WORK"/fuzz-*.log 2>/dev/null | head -2
    echo "VIOLATION property=$ID replay=$dest"
  done
  exit 1
fi
if [ $code -ne 0 ]; then echo "ENGINE-ERROR: libFuzzer exited with $code without an artifact"; tail -n 5 "$WORK/fuzz.out"; exit 2; fi
exit 0
