#!/usr/bin/env python3
"""Writes /verif/seeded/<ID>-<N>/meta.json from the table below and the catch matrix logs
(/tmp/seedmatrix/<ID>-<N>.log, produced by tools/seed_matrix.sh) and prints the DESIGN.md table."""
import json, os, re, sys

ROOT = os.path.dirname(os.path.dirname(os.path.abspath(__file__)))

# (what the change does, what it needs in order to manifest)
SEEDS = {
 "C01-1": ("run_gc_if_necessary no longer pins the file that receives the empty-queue position records (guard `_file_number` removed)",
           ">= 2 WAL files, every queue empty, GC triggered with the write cursor so close to the file end that the position records roll over into the next file, then a restart"),
 "C01-2": ("delete_queue removes the queue from memory only after GC + persist",
           "the deleted queue is empty AND its delete_queue call runs a real GC (files pending collection), then a restart: a RecordPosition written after the DeleteQueue resurrects it"),
 "C02-1": ("RecordReader clears its reassembly buffer once per go_next call instead of at every First/Full frame",
           "a multi-frame entry torn between its frames by a crash, recovery, one more operation, and a SECOND restart (the first recovery looks perfect)"),
 "C02-2": ("recovery-time GC (end of open) no longer records the positions of empty queues, only unlinks",
           "crash inside the flush of a truncate/delete that releases the oldest file, after its own entry reached the OS but before the position entries; recovery; one more restart"),
 "C03-1": ("RecordWriter remembers 'written since last persist' and skips persist when clear, forgetting how strongly it persisted: a Flush makes the next FlushAndFsync a no-op",
           "power-loss model; a Flush reaches the writer with nothing written before an explicit persist(FlushAndFsync) (e.g. Always(Flush) + explicit fsync), power loss before the next write+fsync"),
 "C03-2": ("GC no longer pins the current file while writing empty-queue positions (guard removed, other wording)",
           "all queues empty, >= 2 files, cursor within a few dozen bytes of the end of the current file when GC runs, then crash or reopen"),
 "C04-1": ("truncate runs the in-memory truncation first and returns early (nothing written) when no record was evicted",
           "an EMPTY queue truncated to a position >= its next position, then restart/crash before the next append or GC of that queue"),
 "C04-2": ("the GC guard is moved into record_empty_queues_position and dropped before directory().gc()",
           "empty idle queues, GC while the cursor is within a few hundred bytes of the file end so that the position records straddle two files, restart before a later GC"),
 "C05-1": ("truncate_head fast path `if start_offset_to_keep == 0 { return 0 }` (zero byte offset taken to mean index 0)",
           "every record at or below the truncation point has an EMPTY payload and at least one record survives"),
 "C05-2": ("truncate returns early, writing nothing, when range(queue, ..=p) is empty",
           "a queue holding no records truncated to p >= next position, then anything that reads the next position"),
 "C06-1": ("delete_queue runs the GC before dropping the in-memory queue",
           "roll-over happened, the deleted queue is the only one retaining the oldest files; check before the next GC-running call"),
 "C06-2": ("truncate skips the GC when it evicted nothing",
           "a roll-over driven by non-retaining entries (thousands of no-op truncates, or a few with 20-64 KiB queue names) followed by truncates that evict nothing"),
 "C07-1": ("FrameReader resets cursor/block_corrupted BEFORE asking for the next block",
           "WAL data ends 0..6 bytes before the end of the NEWEST file, clean close, reopen, append, reopen: the last block is overwritten"),
 "C07-2": ("into_writer resumes on the next block boundary when <= 7 bytes remain (off by one: 7 must hold an empty First frame)",
           "the log ends with exactly 7 bytes left in a block, clean close, reopen, append, reopen"),
 "C08-1": ("RecordReader no longer resets within_record on Corruption / IoError",
           "in-place damage of a non-first frame of a multi-frame batch whose items line up with frame boundaries (169-byte payloads: 181 | 32761) so that the splice still parses"),
 "C08-2": ("FrameReader skips to the next block by itself on an unparseable header instead of reporting Corruption",
           "damage making a header unparseable in the block after a record's First frame, with Last frames of equal length on both sides"),
 "C09-1": ("ack_position only ever moves an existing queue forward (`next_position() < next_position`)",
           "queue deleted and re-created under the same name, first incarnation advanced, payload/CRC damage on exactly the DeleteQueue frame"),
 "C09-2": ("replay treats DeleteQueue of an unknown queue as Corruption (`?` instead of ignoring)",
           "a queue whose only retained mention is its RecordPosition entry (created, never appended to, deleted), damage on exactly that frame"),
 "C10-1": ("frame length checked against the block end before the 7 header bytes are consumed",
           "a damaged header with valid type byte and a length overshooting the block end by exactly 1..=7 bytes"),
 "C10-2": ("filename_to_position uses split_at(4) before checking the prefix",
           "a stray 24-byte UTF-8 file name with a multi-byte character straddling byte 4 (e.g. 'wal\\u00e90000000000000000000')"),
 "C11-1": ("read of the first block of a later WAL file: `read_block(..).unwrap_or(false)`",
           "WAL spanning >= 2 files and an I/O error (transient or persistent) exactly at the first-block read of a non-first file"),
 "C11-2": ("an I/O error while a multi-frame record is being assembled is reported as Corruption",
           "a record stored as several frames; a TRANSIENT I/O error exactly at the block read that fetches its continuation"),
 "C12-1": ("RecordReader keeps assembling after a damaged frame (within_record not reset)",
           "a batch spanning >= 3 blocks whose Middle frame starts and ends on item boundaries (169-byte payloads), one byte of that frame damaged"),
 "C12-2": ("replay skips 'past' positions per item instead of refusing the log",
           "queue filled, deleted, re-created, a new batch overlapping the old positions, and a header-byte damage that makes the reader skip the block holding both the delete and the re-create entries"),
 "C13-1": ("retry/past detection compares with last_record() instead of next_position",
           "queue emptied by truncation (or rebuilt empty after restart) then an append with an explicit position <= last position: it is written to the WAL before being rejected"),
 "C13-2": ("truncate validates the queue only after writing the Truncate entry",
           "truncate on a non-existent queue; visible only in WAL bytes / write trace (or near a file end where it rolls over)"),
 "C14-1": ("truncate runs file GC only when the persist policy fires",
           "non-Always policy, roll-over to a second file, a truncate freeing every record of the oldest file"),
 "C14-2": ("end-of-block padding skipped by a raw seek on the inner file, bypassing the BufWriter (two sites)",
           "DoNothing / OnDelay not due, a record ending 1..6 bytes before a block boundary while bytes are still buffered, then drop + reopen"),
 "C15-1": ("write_frame no longer counts the end-of-block padding it writes",
           "a mutating call starting with the cursor 1..6 bytes before a 32 KiB block boundary"),
 "C15-2": ("record_empty_queues_position reports only the LAST position entry (`=` instead of `+=`)",
           "a truncate/delete that triggers GC while >= 2 queues are empty"),
 "C16-1": ("RollingBuffer::truncate_head defers dropping a prefix smaller than 1/8 of the buffer (two cooperating sites)",
           "a partial truncation evicting less than 1/8 of the bytes the queue holds"),
 "C16-2": ("freed-byte offset taken from the START of the last evicted record",
           "a partial truncation whose last evicted record has a large payload (accounting off by that payload)"),
 "C17-1": ("the all-ASCII-digits check of filename_to_position is dropped (u64::from_str accepts a leading '+')",
           "a foreign file named 'wal-+' + 19 digits present at open"),
 "C17-2": ("directory scan uses Path::is_file (follows symlinks) instead of DirEntry::file_type",
           "a symlink named wal-<20 digits> pointing to a regular file present at open"),
 "C18-1": ("`let _file_number = ..clone()` becomes `let _ = ..clone()` in run_gc_if_necessary (guard dropped at once)",
           ">= 1 empty idle queue, a truncate/delete on ANOTHER queue frees the oldest file while the cursor is near the file end, then restart"),
 "C18-2": ("delete_queue drops the in-memory queue after GC + persist",
           "the deleted queue is empty and its delete runs a real GC, which depends entirely on calls addressed to other queues; then restart"),
}

# ---- second round (agents were told the first-round changes and asked for different root causes)
SEEDS.update({
 "C01-3": ("truncate does the in-memory truncation first and returns early, writing nothing, when no record was evicted (same mechanism as C04-1)",
           "an empty queue truncated into the future, then a restart before any GC that really deletes files"),
 "C01-4": ("truncate runs GC and persist BEFORE the in-memory truncation",
           ">= 2 WAL files, a file-releasing truncate, then as the very next truncate a future-truncation of an empty queue (the GC snapshots its stale position after the Truncate entry), restart"),
 "C01-5": ("record_empty_queues_position writes last_position().unwrap_or_default() instead of next_position()",
           "a queue that is empty with next position > 0, roll-over, a GC that really deletes files, restart: the queue comes back one position lower"),
 "C02-4": ("the GC guard `_file_number` is taken AFTER record_empty_queues_position instead of before",
           "all queues empty, >= 2 files, GC position entries crossing a file boundary (cursor near the file end or 40 KB queue names), then crash or restart"),
 "C03-3": ("Directory::gc collects the unused files first and unlinks them newest-first",
           "one GC pass removing >= 2 files, a DeleteQueue entry living only in the middle file, a crash exactly between the two unlinks"),
 "C03-4": ("persist(FlushAndFsync) no longer fsyncs the directory; sync added after creating wal-0 and after GC unlinks (roll-over syncs BEFORE creating the next file)",
           "power loss after a roll-over and an fsync-level persist, before the next roll-over or GC: the new file's directory entry is not durable"),
 "C04-3": ("RecordReader::go_next clears the record buffer at the top of the call instead of at First/Full frames",
           "a record spanning a block boundary torn between its frames by a kill, recovery, an append, a second restart: that append is lost and its position handed out again"),
 "C04-4": ("both the fsync in record_empty_queues_position and the persist before gc() are removed (each looks redundant given the other)",
           "an empty idle queue whose last mention is in files a GC pass removes, and a kill between that pass's unlinks and the next flush"),
 "C05-3": ("retry detection compares with last_record() instead of next_position",
           "append, truncate through the last position, then append with an explicit position equal to the last position: Err(Past) instead of the no-op"),
 "C05-4": ("summary().end taken from the last retained record instead of last_position()",
           "a fully truncated queue, then summary()"),
 "C06-3": ("open_with_prefs takes `file_number` once before the replay loop: every replayed record is attributed to the first WAL file",
           ">= 2 WAL files at a clean restart, re-open, then a truncate/delete moving the oldest retained record past a file boundary while a pre-restart record is retained"),
 "C06-4": ("run_gc_if_necessary deletes files only when the persist policy says a persist is due",
           "open_with_prefs with DoNothing / OnDelay, roll-over, a call that frees the oldest file"),
 "C07-3": ("record buffer cleared at the top of go_next, guarded by !within_record",
           "a multi-block entry torn by a kill (First/Middle on disk, Last missing), restart, an append, restart: the first entry after the crash reads back as garbage"),
 "C07-4": ("the GC guard `_file_number` is removed (same mechanism as C01-1, different wording)",
           "GC with an empty queue while the cursor is within a position entry's length of a file end, then a clean restart"),
 "C08-3": ("the frame CRC no longer covers the frame type byte",
           "a record spanning >= 2 frames whose continuation frame starts with the byte image of an entry (crafted payload), and the frame type byte overwritten with another valid type"),
 "C09-3": ("record buffer cleared only when idle AND the error arms no longer reset within_record (two sites)",
           "an entry straddling a block boundary, damage on its non-first frame, and a following entry: that untouched entry is lost too"),
 "C09-4": ("the within_record flag is removed as redundant",
           "a multi-frame batch whose first k records end exactly on the last byte of a block, preceded by an append, damage on the batch's First frame: open fails with Corruption"),
 "C10-3": ("FileTracker::next computes curr + 1 before the range lookup",
           "a WAL file named wal-18446744073709551615 that replay reads to its last block: panic (overflow) or endless loop"),
 "C10-4": ("read_block uses a hand-written fill loop that only recognises EOF when nothing was read",
           "a non-newest WAL file whose length is not a multiple of 32 KiB (cut inside a block): open never returns"),
 "C11-3": ("when skipping a block declared corrupted, the next block is loaded with next_block().unwrap_or(false)",
           "a WAL image with block-level damage (invalid frame type / over-long length) AND an I/O error at exactly the block read that skips it"),
 "C11-4": ("block reads are retried without bound on ErrorKind::Interrupted",
           "an error of kind Interrupted at a non-first block read: persistent = open never returns, transient = silently retried"),
 "C12-3": ("the frame CRC no longer covers the frame type byte",
           "type byte of a batch frame damaged First->Full or Middle->Last where the frame ends on an item boundary: the batch is recovered without its tail"),
 "C12-4": ("batches larger than half a WAL file are written as several AppendRecords entries",
           "a batch > 64 KiB and a crash between two of its entries, or damage of one of its frames"),
 "C13-3": ("append_records runs the file GC before validating the call",
           "a pending-GC state (first file unreferenced, roll-over caused by a create_queue with a long name) and then any rejected / no-op append"),
 "C13-4": ("the empty-batch no-op is decided from the iterator's size_hint upper bound",
           "an empty batch passed as an iterator with an inexact size hint (e.g. a filter that drops everything)"),
 "C14-3": ("persist(FlushAndFsync) eagerly rolls over to the next WAL file when the current one is exactly full",
           "a record ending exactly on the last byte of a WAL file under a policy that fsyncs at that moment vs. one that does not"),
 "C15-3": ("create_queue runs the GC but drops the byte count it returns",
           "a pending-GC state at create_queue time (its own entry rolls the file over while every queue is empty)"),
 "C15-4": ("truncate returns wal_bytes_written 0 on a fast path taken AFTER its entry was written, when nothing was evicted",
           "any truncate that evicts nothing"),
 "C16-3": ("truncate strictly beyond the last record clears the record metas but not the payload buffer",
           "a truncate at a position greater than the last position of a non-empty queue"),
 "C16-4": ("truncate_head fast path keyed on byte offset 0 instead of record index 0",
           "zero-length records at the head of a queue evicted by a partial truncation"),
 "C17-3": ("create_file uses create(true).truncate(true) instead of create_new(true)",
           "a foreign symlink named exactly like the next file the writer rolls over to"),
 "C17-4": ("FileTracker::next / inc look up number + 1 instead of the next tracked number",
           "non-consecutive WAL numbers at open time (gaps)"),
 "C18-3": ("delete_queue persists and calls directory().gc() directly, skipping record_empty_queues_position",
           "an idle empty queue whose latest position entry sits in the oldest file, that file released by a delete_queue on ANOTHER queue, restart"),
 "C18-4": ("within_record replaced by an inverted drop_record flag with the wrong initial state: orphan Middle/Last frames at the start of the WAL are delivered",
           "a record of queue b straddling a file boundary whose tail is a well-formed entry for another queue (crafted payload), the first file GC'ed, restart"),
})

# ---- third round (agents were asked for changes a randomized / model-based generator would be unlikely to hit)
SEEDS.update({
 "C01-6": ("FrameReader resets cursor / block_corrupted BEFORE asking for the next block (same change as C07-1)",
           "the log ends with 0..6 bytes left in the NEWEST file, clean restart, any write, second clean restart"),
 "C01-7": ("RollingReader::next_block increments block_id before read_block instead of only on success",
           "the log ends with exactly 1..6 bytes left in the newest file, clean restart, writes, second clean restart: the first block of the new file is shifted and dropped"),
 "C02-6": ("get_frame_header advances the cursor past the 7 header bytes before validating them",
           "the cursor is in the LAST block of the newest file, a crash inside the first 1..6 bytes of a frame header, recovery, one more operation, second restart"),
 "C02-7": ("delete_queue removes the queue from memory after GC + persist (same change as C01-2 / C18-2)",
           "delete of an EMPTY queue while the oldest file is unreferenced and >= 2 files exist"),
 "C03-6": ("RecordReader::go_next clears the record buffer at the top of the call (same mechanism as C02-1 / C04-3)",
           "a multi-frame record torn by a crash, recovery, one more PERSISTED operation, second crash / reopen: that operation is lost"),
 "C03-7": ("the repair of a too-short newest file (D2 fix) runs only when it is the ONLY file",
           ">= 2 files, a crash exactly between create_new and set_len of a roll-over, recovery, more persisted operations, second restart"),
 "C04-6": ("the GC at the end of open() no longer re-records the positions of empty queues (same change as C02-2)",
           "a head file unreferenced at open although no live pass collected it (GC pass straddling a file end, or a roll-over caused only by create_queue calls), then TWO clean restarts"),
 "C04-7": ("the repair of a too-short newest file runs only when it is the only file (same change as C03-7)",
           "a kill exactly between create_new and set_len during a roll-over, recovery, one more acknowledged operation, second restart"),
 "C08-6": ("empty frames (len 0) are accepted without CRC verification",
           "a record of >= 2 frames and a whole block overwritten with the 7-byte pattern 00 00 00 00 00 00 03 repeated, with item-aligned records so that the glued ends parse"),
 "C08-7": ("a First/Full frame no longer restarts an unterminated record (go_next rewritten as a state machine)",
           "zero-fill starting exactly on the Last frame header of a multi-frame record, a successful open, an append whose serialized size equals the lost tail exactly, reopen"),
 "C09-6": ("end-of-block padding is consumed together with the preceding frame, except after a checksum mismatch",
           "the last frame of a block ends exactly 1..6 bytes before the block boundary AND payload/CRC damage hits that frame: open panics"),
 "C09-7": ("an EMPTY frame with a bad checksum is treated as the torn end of the log",
           "an entry beginning with exactly 7 bytes left in a block (empty First frame), damage on one of its 4 checksum bytes, at least one later entry"),
 "C10-6": ("filename_to_position uses parse::<u64>().expect(..) after the digit check",
           "a stray file named wal- + 20 digits whose value exceeds u64::MAX"),
 "C10-7": ("deserialize asserts that control entries (truncate / position / delete) carry no payload",
           "a control entry straddling a block boundary (cut inside its queue name) whose next block is replaced by an intact block starting with a Middle/Last frame"),
 "C12-6": ("record buffer cleared once per go_next call (same mechanism as C02-1)",
           "a crash after the First frame of a multi-block batch, restart, an entry of exactly the missing length, second restart: part of the crashed batch surfaces"),
 "C12-7": ("read_frame loops to the next block on an unparseable header instead of reporting Corruption (same mechanism as C08-2)",
           "a batch of >= 3 blocks of item-aligned records (32 749 B) and the type byte of a Middle frame damaged to an invalid value"),
 "C18-6": ("end of log recognised by the first 4 header bytes being zero (a frame whose CRC32 is 0 reads as end of log)",
           "a payload crafted so that its frame CRC32 is exactly 0, then operations on other queues, then a restart"),
 "C18-7": ("a First/Full frame arriving while a record is being assembled is reported as Corruption (and thereby dropped)",
           "a record of queue a torn between its two frames by a crash, recovery, an append to ANOTHER queue as the first write, second restart: that append is lost"),
})

# fourth round: nine more sub-agents (C05 C06 C07 C11 C13 C14 C15 C16 C17), same "hard for a random generator" brief
SEEDS.update({
 "C05-6": ("the empty-batch no-op is decided (peekable) before the explicit position is validated",
           "append_records(q, Some(p), <empty batch>) with p strictly older than the last position: Ok(no-op) instead of Err(Past)"),
 "C05-7": ("MemQueue::range merges the Included and Excluded start-bound arms (take_while stops instead of skipping)",
           "range(q, (Bound::Excluded(p), _)) with p exactly a retained position and >= 1 record after it returns nothing"),
 "C06-6": ("the replay loop's FileNumber handle is declared before the loop and lives until after the GC at open",
           "all queues empty, an append straddling two WAL files torn by a crash after the roll-over: the re-opened directory keeps [N, N+1] instead of [N+1]"),
 "C06-7": ("append_records attributes records to a cached 'file being written' that only appends refresh",
           "a ~20-byte Truncate / DeleteQueue / RecordPosition entry is the write that crosses a file boundary; the stale handle then pins the old file"),
 "C07-6": ("end of log recognised by the 4 checksum bytes of a frame header being zero (same mechanism as C18-6)",
           "a frame whose CRC-32 is exactly 0 (2^-32 per frame for random payloads; forced by choosing the last 4 payload bytes)"),
 "C07-7": ("within_record derived from the frame type: Middle/Last frames are always appended, a record is returned on every Full/Last",
           "an entry straddling two WAL files whose head file has been garbage-collected: the orphan tail at the start of the next file is returned as an entry"),
 "C11-6": ("RollingReader::next_block treats a NotFound error when opening the NEXT wal file as 'file holds no block' and skips it",
           "WAL of >= 2 files, fault exactly at the open of a non-first file, kind exactly NotFound: open returns Ok without that file's records"),
 "C11-7": ("FrameReader classifies an io::Error of kind InvalidData from next_block() as a corrupted block",
           "fault at a non-first block read with kind InvalidData: transient -> open Ok (silently), persistent -> open never returns"),
 "C13-6": ("the retry-of-last-position no-op calls persist_on_policy() before returning",
           "OnDelay policy that is due + earlier accepted calls still buffered: the no-op flushes them (WAL file bytes change)"),
 "C13-7": ("the empty-batch early return replaced by a single-exit structure that falls through persist_on_policy()",
           "as C13-6, for an empty batch on an existing queue"),
 "C14-6": ("FrameWriter::persist(FlushAndFsync) writes the end-of-block padding when remaining <= HEADER_LEN (off by one: 7 is room for a header-only frame)",
           "a record ending exactly 7 bytes before a block boundary + an fsyncing persist at that moment + a later call + clean restart: the log ends there under fsync policies only"),
 "C15-6": ("write_frame measures the bytes written as the difference of num_bytes_remaining_in_block() before/after (mod 32768)",
           "a call starting 1..6 bytes before a block boundary whose entry is >= ~32 KiB: reported 32768 too small"),
 "C15-7": ("the header-only First frame written when exactly 7 bytes remain in the block is not added to the total",
           "an entry starting exactly 7 bytes before a block boundary: under-reports by 7"),
 "C16-6": ("truncate_head drains a >= 8 MiB payload buffer only up to a multiple of 4096 (page-wise release)",
           "a single queue holding >= 8 MiB in memory, partially truncated, evicted size not a multiple of 4096: up to 4095 dead bytes stay counted"),
 "C17-6": ("filename_to_position uses split_at(4) instead of starts_with + slicing",
           "a foreign file whose 24-byte UTF-8 name has a multi-byte character straddling byte offset 4: open panics"),
 "C17-7": ("Directory::open skips directories and symlinks instead of everything that is not a regular file",
           "a unix socket / FIFO / device node named wal-<20 digits>: opened as a WAL file"),
})

# fifth (mini) round: six sub-agents (C02 C03 C09 C10 C12 C18), 25-minute budget, one change each; C12's was caught by the
# crate's own suite (not a valid seed, kept under seeded/not-valid-C12-8 for the record)
SEEDS.update({
 "C02-8": ("Directory::gc drains the unused files into a Vec and unlinks them newest-first (Vec::pop)",
           ">= 3 wal files, one GC pass freeing >= 2 files, a DeleteQueue / Truncate entry in the newer freed file for data in the older one, crash between the unlinks: the deleted queue comes back"),
 "C03-8": ("FrameReader resets cursor / block_corrupted before asking for the next block (same change as C01-6)",
           "log ending 0..6 bytes before the end of the newest wal file, reopen, one more persisted write, reopen: up to 32 KiB of persisted operations lost"),
 "C09-8": ("MemQueues::ack_position leaves an existing EMPTY queue alone (reset only when non-empty)",
           "queue appended, truncated to exactly empty, deleted, re-created, appended again; damage on exactly the DeleteQueue frame: open fails with Corruption"),
 "C10-8": ("RollingWriter::write tests buf.len() > FILE_NUM_BYTES - offset (underflows when replay ended beyond FILE_NUM_BYTES)",
           "over-long newest file (>= 2 extra harmless non-zero blocks reached by the replay) + an unreferenced older file + an empty queue, so that the GC at open writes: panic"),
 "C18-8": ("run_gc_if_necessary persists on policy instead of FlushAndFsync before gc() (undoes the D1 fix for non-Always policies)",
           "DoNothing / OnDelay policy, a truncate on queue a deletes the file holding queue b's creation while b's records are still buffered, no empty queue, crash"),
})

# sixth (mini) round: eight sub-agents (C01 C04 C05 C06 C08 C11 C15 C17), 25-minute budget, one change each
SEEDS.update({
 "C01-9": ("RecordReader::go_next without the within_record flag: orphan Middle/Last frames are assembled into a record (same family as C07-7)",
           "a record straddling two wal files, truncated, head file GC'ed, clean restart, and the payload bytes at the frame split spell a RecordPosition entry: a deleted queue reappears"),
 "C04-9": ("positions of empty queues are recorded at most once per current WAL file (new field remembers the file)",
           ">= 3 files, a GC pass while the writer is in file F, then a second pass still in F triggered by emptying a queue whose records all live in the head file, then a restart: the queue is gone"),
 "C05-9": ("MemQueue::range resolves its start bound with position - start_position when the retained records have no hole",
           "a hole-free queue whose start_position is below its first record (emptied queue + explicit future position, or truncate inside a hole) and a range with a bounded start: records dropped"),
 "C06-9": ("delete_queue runs the GC pass only if the deleted queue still held records",
           "everything truncated past the current file, a create_queue entry crossing the file boundary, then delete_queue of an EMPTY queue: the unreferenced file stays"),
 "C08-9": ("Header::check accepts a stored checksum of 0 without hashing",
           "in-place damage zeroing exactly the 4 checksum bytes of a frame header plus a second alteration in that frame's payload that still deserializes"),
 "C11-9": ("RecordReader::go_next turns an I/O error into 'no more record' when no multi-frame record is being assembled",
           "a record ending 0..6 bytes before a block end (padded block) with the log continuing in the next block, fault at exactly that block read: open returns Ok with a partial log"),
 "C15-9": ("write_record adds the constant BLOCK - HEADER (payload capacity) for a Middle frame instead of what write_frame returns",
           "an entry with >= 1 Middle frame (>= ~64 KiB, or 32..64 KiB starting late in its block): 7 bytes too few per Middle frame"),
 "C17-9": ("create_file preallocates under a hidden temporary name .wal-<N>.tmp (create+truncate) and renames it into place",
           "a foreign file named exactly .wal-<next number>.tmp present during a roll-over is destroyed; the library creates a name that is not wal-<20 digits>"),
})

# seventh (mini) round: eight sub-agents (C03 C07 C09 C10 C12 C13 C14 C16), 25-minute budget, one change each
SEEDS.update({
 "C03-10": ("the roll-over flushes + fsyncs the file it leaves only when the write buffer is non-empty",
            "power-loss model; a roll-over at the instant the BufWriter is empty: the previous record ended on the last byte of the file, or a whole-block frame (written past the buffer) is the last frame of the file"),
 "C07-10": ("write_record decides is_last_frame with < instead of <= and leaves the loop on an empty remainder (two edits)",
            "an entry whose remaining part is exactly max_writable_frame_length(): it ends exactly at a block end, gets no closing frame and vanishes at read-back"),
 "C09-10": ("the replay of DeleteQueue drops the queue only if its replayed next position equals the position stored in the entry",
            "damage on the frame of the queue's last position-advancing entry before its deletion: the undamaged DeleteQueue entry is ignored too and the deleted queue is back"),
 "C10-10": ("FrameReader skips to the next block only at cursor == BLOCK, the eager skip sits after the CRC check (two sites)",
            "a frame ending 1..6 bytes before a block end whose CRC fails (payload / checksum byte damaged, len and type intact): slice index panic in open"),
 "C12-10": ("'nothing written here yet' tested on the frame type byte only",
            "type byte of a batch's frame damaged to exactly 0, restart (batch gone as a whole), same-size batch crashing right after its First frame, restart: stale frames of the old batch complete the new head"),
 "C13-10": ("create_queue rejected with AlreadyExists flushes and fsyncs the writer first",
            "non-default policy, accepted appends still buffered, then create_queue on an existing name: the WAL file bytes change during the rejected call"),
 "C14-10": ("RollingWriter remembers a clone of the FileNumber of the last persist (tracing): the Arc clone pins that file",
            "DoNothing / OnDelay not due, a persist on the old file (create_queue), roll-over by plain appends, truncate freeing the old file: the file stays (disk_used_bytes differs between policies)"),
 "C16-10": ("truncate_head skips the rebase + drain when no payload byte is retained",
            "a partial truncation after which every retained record has an EMPTY payload: the evicted payload stays counted"),
})

def parse_matrix(name):
    path = f"/tmp/seedmatrix_final/{name}.log"
    if not os.path.exists(path):
        return None
    text = open(path).read()
    m = re.search(r"caught=\[(.*?)\] missed=\[(.*?)\] other=\[(.*?)\]", text)
    if not m:
        return {"raw": text.strip()[:200]}
    return {"caught": m.group(1).split(), "missed": m.group(2).split(), "other": m.group(3).split()}

def main():
    rows = []
    for name, (what, needs) in sorted(SEEDS.items()):
        d = os.path.join(ROOT, "seeded", name)
        if not os.path.isdir(d):
            continue
        prop = name.split("-")[0]
        matrix = parse_matrix(name)
        meta = {
            "breaks_property": prop,
            "change": what,
            "needs_to_manifest": needs,
            "author": "fresh sub-agent given only the property text and its own scratch worktree of /repo (nothing from /verif)",
            "confirmed_by_me": "tools/confirm_seed.sh: demo passes without the patch, fails with it, unedited suite 66/66 with the patch (see seeded/CONFIRM_LOG.txt)",
            "ran": "tools/seed_matrix.sh -> mutants/selftest.sh --patch <patch.diff> <all 18 IDs> (quick tier, scratch worktree + scratch copy of the harness)",
        }
        if matrix and "caught" in matrix:
            ran = sorted(matrix["caught"] + matrix["missed"] + [c.split("(")[0] for c in matrix["other"]])
            meta["quick_checks_run_against_it"] = ran
            if len(ran) < 18:
                meta["ran"] = "tools/seed_matrix.sh with SEED_MATRIX_IDS = its own check and the checks most likely to be affected (time budget; the purity of the other checks was measured on the 91 earlier seeds) -> mutants/selftest.sh --patch <patch.diff> <IDs> (quick tier, scratch worktree + scratch copy of the harness)"
            meta["caught_by_quick_checks"] = matrix["caught"]
            meta["target_check_catches_it"] = prop in matrix["caught"]
            meta["other_exit_codes"] = matrix["other"]
        json.dump(meta, open(os.path.join(d, "meta.json"), "w"), indent=1)
        rows.append((name, what, matrix))
    for name, what, matrix in rows:
        prop = name.split("-")[0]
        if matrix and "caught" in matrix:
            hit = "yes" if prop in matrix["caught"] else "NO"
            others = [c for c in matrix["caught"] if c != prop]
            print(f"| {name} | {what[:90]} | {hit} | {' '.join(others) or '-'} |")
        else:
            print(f"| {name} | {what[:90]} | ? | ? |")

if __name__ == "__main__":
    main()
