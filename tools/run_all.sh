#!/bin/sh
# Runs every registered check (default tier quick) and prints one line per property.
TIER="${1:-quick}"
cd "$(dirname "$0")/.." || exit 2
status=0
for id in $(python3 -c "import json;print(' '.join(c['property_id'] for c in json.load(open('MANIFEST.json'))['checks']))"); do
    start=$(date +%s)
    out=$(./check "$id" --tier "$TIER" 2>&1)
    code=$?
    end=$(date +%s)
    echo "$id exit=$code $((end-start))s $(echo "$out" | grep -E '^C[0-9]+ tier' | cut -c1-140)"
    echo "$out" | grep -E '^(VIOLATION|KNOWN-FINDING|ENGINE-ERROR)' | cut -c1-200
    [ $code -ne 0 ] && status=1
done
exit $status
