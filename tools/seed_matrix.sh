#!/bin/bash
# Runs every registered quick check against seeded patches: tools/seed_matrix.sh <slot> "<ID> <N>" ...
# (slot selects a private scratch dir so that several instances can run in parallel)
VERIF="$(cd "$(dirname "$0")/.." && pwd)"
slot="$1"; shift
export VERIF_SELFTEST_DIR="/tmp/verif-selftest-$slot"
mkdir -p /tmp/seedmatrix
ALL_IDS=$(python3 -c "import json;print(' '.join(c['property_id'] for c in json.load(open('$VERIF/MANIFEST.json'))['checks']))")
[ -n "${SEED_MATRIX_IDS:-}" ] && ALL_IDS="$SEED_MATRIX_IDS"
OUT="${SEED_MATRIX_OUT:-/tmp/seedmatrix}"; mkdir -p "$OUT"
for pair in "$@"; do
  set -- $pair; id="$1"; n="$2"
  src="/tmp/seed/$id/_seed/patch$n.diff"; [ -f "$src" ] || src="$VERIF/seeded/$id-$n/patch.diff"
  [ -f "$src" ] || { echo "$id/$n: no patch"; continue; }
  "$VERIF/mutants/selftest.sh" --keep --patch "$src" $ALL_IDS 2>&1 | sed "s#^patch$n.diff#seed $id/$n#; s#^patch.diff#seed $id/$n#" | tee "$OUT/$id-$n.log"
done
git -C /repo worktree remove --force "$VERIF_SELFTEST_DIR/repo" 2>/dev/null; rm -rf "$VERIF_SELFTEST_DIR"
