#!/bin/bash
# How stable is the detection of a seeded change under other PRNG seeds?  tools/seed_stability.sh "<ID>-<N>" ...
# For each seed patch: its own check (quick tier) is run with VERIF_SEED = 1 2 3 4 5; prints how many runs caught it.
VERIF="$(cd "$(dirname "$0")/.." && pwd)"
S=/tmp/verif-stability
export CARGO_NET_OFFLINE=true
mkdir -p "$S"
[ -d "$S/repo" ] || git -C /repo worktree add --detach "$S/repo" HEAD -q || exit 2
rm -rf "$S/harness/src" "$S/root"; mkdir -p "$S/harness" "$S/root"
cp -r "$VERIF/harness/src" "$VERIF/harness/Cargo.lock" "$S/harness/"; mkdir -p "$S/harness/.cargo"; cp "$VERIF/harness/.cargo/config.toml" "$S/harness/.cargo/"
sed "s#path = \"/repo\"#path = \"$S/repo\"#" "$VERIF/harness/Cargo.toml" > "$S/harness/Cargo.toml"
cp "$VERIF/KNOWN_FINDINGS.txt" "$S/root/"
for name in "$@"; do
  id="${name%-*}"
  git -C "$S/repo" checkout -q -- .
  git -C "$S/repo" apply "$VERIF/seeded/$name/patch.diff" || { echo "$name: patch does not apply"; continue; }
  (cd "$S/harness" && cargo build --release --offline -q 2>"$S/build.log") || { echo "$name: does not compile"; continue; }
  caught=0; total=0
  for seed in 1 2 3 4 5; do
    (cd "$S/root" && VERIF_ROOT="$S/root" timeout 1500 "$S/harness/target/release/verif-harness" "$id" --tier quick --seed $seed >/dev/null 2>&1); code=$?
    total=$((total+1)); [ $code -eq 1 ] && caught=$((caught+1))
  done
  echo "$name: caught by $id in $caught/$total runs (seeds 1..5)"
done
git -C /repo worktree remove --force "$S/repo" 2>/dev/null; rm -rf "$S"
